#!/usr/bin/env python3
"""Regenerate MANIFEST.json from lib/props.py (run after changing the registry)."""
import json, os, sys
ROOT = os.path.dirname(os.path.dirname(os.path.abspath(__file__)))
sys.path.insert(0, os.path.join(ROOT, "lib"))
import props

ALL = ["C%02d" % i for i in range(1, 21)]
checks = []
for pid in ALL:
    if pid not in props.PROPS:
        continue
    m = props.PROPS[pid]
    checks.append({
        "property_id": pid,
        "quick_cmd": "./check %s --tier quick" % pid,
        "thorough_cmd": "./check %s --tier thorough" % pid,
        "evidence_file": "/verif/evidence/%s.json" % pid,
        "replay_cmd_template": "./check %s --replay {path}" % pid,
        "engine": m["engine"],
        "level_claimed": {"category": m["level"], "text": m["level_text"], "design_ref": m["design_ref"]},
        "level_note": m["level_note"],
        "technique": m["technique"],
    })
na = [{"property_id": pid, "reason": props.NOT_APPLICABLE.get(pid, "check not built yet in this round; planned in DESIGN.md section 6")}
      for pid in ALL if pid not in props.PROPS]
manifest = {
    "version": 1,
    "setup_cmd": "./setup.sh",
    "hooks": {
        "guard": "cargo feature verif-hooks of crate pest_typed (/repo/main/Cargo.toml), off by default",
        "enable": "the engines under /verif/engines depend on pest_typed by path with features = [\"verif-hooks\"]; every check runs `cargo build --offline` first, so /repo's working tree is recompiled",
        "baseline_off_cmd": "cd /repo && cargo test --workspace --no-fail-fast --offline",
        "source_commits": props.HOOK_COMMITS,
        "add_only": True,
    },
    "engines": props.ENGINES,
    "checks": checks,
    "not_applicable": na,
    "notes": "Technique family: runtime monitoring and sanitizers. Exit codes: 0 held on everything explored, 1 VIOLATION, 2 INCONCLUSIVE (never on the unchanged tree). Known findings: /verif/known_findings.json. See DESIGN.md.",
}
with open(os.path.join(ROOT, "MANIFEST.json"), "w") as f:
    json.dump(manifest, f, indent=1)
print("wrote MANIFEST.json with %d checks, %d not_applicable" % (len(checks), len(na)))
