"""Registry of checks and the shared verdict / evidence logic."""
import json
import os
import subprocess
import time

ENGINES_DIR = "engines"


class Inconclusive(Exception):
    pass


class Ctx:
    def __init__(self, root, pid, tier, seed, replay):
        self.root = root
        self.pid = pid
        self.tier = tier
        self.seed = seed
        self.replay = replay
        self.scratch = os.path.join(root, "target", "run")
        os.makedirs(self.scratch, exist_ok=True)
        os.makedirs(os.path.join(root, "evidence"), exist_ok=True)
        os.makedirs(os.path.join(root, "replays"), exist_ok=True)
        self.env = dict(os.environ)
        self.env["CARGO_NET_OFFLINE"] = "true"
        self.env["CARGO_TARGET_DIR"] = os.path.join(root, "target")
        self.env.setdefault("RUST_BACKTRACE", "0")
        self.env["RUST_BACKTRACE"] = "0"
        self.log = []

    def note(self, msg):
        self.log.append(msg)
        print("[check %s] %s" % (self.pid, msg), flush=True)

    # ------------------------------------------------------------------ building
    def cargo(self, args, cwd, what, timeout=3600, env=None, toolchain=None):
        cmd = ["cargo"] + ([toolchain] if toolchain else []) + args
        t0 = time.time()
        p = subprocess.run(
            cmd,
            cwd=os.path.join(self.root, cwd),
            env=env or self.env,
            stdout=subprocess.PIPE,
            stderr=subprocess.STDOUT,
            text=True,
            timeout=timeout,
        )
        self.note("%s: %s (%.1fs, exit %d)" % (what, " ".join(cmd), time.time() - t0, p.returncode))
        return p

    def build(self, package, profile="release", cwd=ENGINES_DIR, extra=None):
        args = ["build", "--offline", "-p", package]
        if profile == "release":
            args.append("--release")
        args += extra or []
        p = self.cargo(args, cwd, "build " + package)
        if p.returncode != 0:
            tail = "\n".join(p.stdout.splitlines()[-40:])
            raise Inconclusive("build of %s failed (the engines must compile against /repo):\n%s" % (package, tail))
        return os.path.join(self.root, "target", "release" if profile == "release" else "debug", package)

    # ------------------------------------------------------------------ running
    def run_engine(self, binary, args, name, timeout=7200, env=None, ok_codes=(0,)):
        out = os.path.join(self.scratch, "%s-%s.json" % (self.pid, name))
        if os.path.exists(out):
            os.remove(out)
        cmd = [binary] + args + ["--tier", self.tier, "--seed", str(self.seed), "--out", out]
        t0 = time.time()
        p = subprocess.run(cmd, cwd=self.root, env=env or self.env, stdout=subprocess.PIPE, stderr=subprocess.STDOUT, text=True, timeout=timeout)
        self.note("run %s (%.1fs, exit %d)" % (" ".join(cmd[1:-2]), time.time() - t0, p.returncode))
        if p.returncode not in ok_codes or not os.path.exists(out):
            tail = "\n".join(p.stdout.splitlines()[-30:])
            raise Inconclusive("engine %s exited with %d without a result document:\n%s" % (name, p.returncode, tail))
        with open(out) as f:
            return json.load(f)


def load_known(root):
    path = os.path.join(root, "known_findings.json")
    if not os.path.exists(path):
        return []
    with open(path) as f:
        return json.load(f).get("findings", [])


def merge_results(docs):
    """Merge several engine result documents into one."""
    out = {"evaluations": 0, "distinct_nontrivial": 0, "counters": {}, "samples": [], "violations": [],
           "violation_counts": {}, "inconclusive": [], "notes": []}
    for d in docs:
        out["evaluations"] += d.get("evaluations", 0)
        out["distinct_nontrivial"] += d.get("distinct_nontrivial", 0)
        for k, v in d.get("counters", {}).items():
            out["counters"][k] = out["counters"].get(k, 0) + v
        out["samples"] += d.get("samples", [])
        out["violations"] += d.get("violations", [])
        for k, v in d.get("violation_counts", {}).items():
            out["violation_counts"][k] = out["violation_counts"].get(k, 0) + v
        out["inconclusive"] += d.get("inconclusive", [])
        out["notes"] += d.get("notes", [])
        for k, v in d.items():
            if k not in out:
                out[k] = v
    return out


def conclude(ctx, result, wall):
    """Apply the known-findings file, write evidence, print the verdict lines."""
    pid = ctx.pid
    meta = PROPS[pid]
    known = [k for k in load_known(ctx.root) if k.get("property") == pid and k.get("status") == "finding"]
    known_sigs = {k["signature"]: k for k in known}
    counts = result.get("violation_counts", {})
    new = []
    reobserved = {}
    first_witness = {}
    for v in result.get("violations", []):
        first_witness.setdefault(v["signature"], v)
    for sig, n in sorted(counts.items()):
        if sig in known_sigs:
            reobserved[sig] = n
        else:
            new.append((sig, n))
    replay_paths = []
    for sig, n in new:
        w = first_witness.get(sig, {"signature": sig, "what": "(witness not retained)", "witness": None})
        safe = "".join(c if c.isalnum() else "_" for c in sig)[:80]
        path = os.path.join(ctx.root, "replays", "%s-%s-seed%d.json" % (pid, safe, ctx.seed))
        with open(path, "w") as f:
            json.dump({"property": pid, "signature": sig, "count": n, "what": w["what"], "witness": w["witness"],
                       "tier": ctx.tier, "seed": ctx.seed, "engine_args": result.get("engine_args")}, f, indent=1, ensure_ascii=False)
        replay_paths.append((sig, path, w["what"]))
    inconclusive = list(result.get("inconclusive", []))
    # required observations: a run that did not see what it claims to watch is not a pass
    for key, minimum in ({} if ctx.replay else meta.get("required", {})).items():
        got = result.get("counters", {}).get(key, 0)
        if got < minimum:
            inconclusive.append("required observation %s: saw %d, need >= %d" % (key, got, minimum))
    if result.get("distinct_nontrivial", 0) < 2 and not ctx.replay:
        inconclusive.append("fewer than 2 distinct non-trivial cases were explored")

    if not ctx.replay:
        coverage = {
            "evaluations": int(result.get("evaluations", 0)),
            "distinct_nontrivial": int(result.get("distinct_nontrivial", 0)),
            "rule": result.get("rule", meta.get("rule", "")),
            "samples": result.get("samples", [])[:12] or [{"note": "no sample retained"}],
            "observed": result.get("counters", {}),
            "known_findings_reobserved": reobserved,
            "unlisted_violation_signatures": {s: n for s, n in new},
            "inconclusive": inconclusive,
            "notes": result.get("notes", [])[:20],
        }
        for k in ("exhaustive", "scope", "programs", "disagreements_checked", "builds", "sanitizers", "explanation", "max_tick_ratio_x100"):
            if k in result:
                coverage[k] = result[k]
        if meta["level"] == "translation_validation":
            c = result.get("counters", {})
            coverage["disagreements_checked"] = int(c.get("verdicts_compared", 0) + c.get("trees_compared", 0) + c.get("variant_runs", 0) + c.get("token_streams_compared", 0))
            coverage["programs"] = int(result.get("programs", 0))
        evidence = {
            "property_id": pid,
            "tier": ctx.tier,
            "seed": ctx.seed,
            "level": meta["level"],
            "coverage": coverage,
            "assumptions": meta.get("assumptions", []),
            "wall_s": round(wall, 2),
            "violations": sum(n for _, n in new),
        }
        with open(os.path.join(ctx.root, "evidence", pid + ".json"), "w") as f:
            json.dump(evidence, f, indent=1, ensure_ascii=False)

    for sig, n in sorted(reobserved.items()):
        print("KNOWN-FINDING: property=%s %s (%d cases; signature %s)" % (pid, known_sigs[sig]["what"], n, sig))
    if new:
        for sig, path, what in replay_paths:
            print("VIOLATION property=%s replay=%s" % (pid, path))
            print("  signature: %s\n  what: %s" % (sig, what))
        return 1
    if inconclusive:
        print("INCONCLUSIVE property=%s reason=%s" % (pid, "; ".join(inconclusive)[:2000]))
        return 2
    if ctx.replay:
        print("REPLAY property=%s: the recorded case does not violate the property on the current tree (%d evaluations)" % (pid, result.get("evaluations", 0)))
        return 0
    print("OK property=%s tier=%s seed=%d evaluations=%d distinct_nontrivial=%d wall=%.1fs" % (
        pid, ctx.tier, ctx.seed, result.get("evaluations", 0), result.get("distinct_nontrivial", 0), wall))
    return 0


# ---------------------------------------------------------------------------------------------
# engines
# ---------------------------------------------------------------------------------------------

def run_textmon(ctx):
    binary = ctx.build("textmon")
    args = ["--prop", ctx.pid]
    if ctx.replay:
        args += ["--replay", ctx.replay]
    doc = ctx.run_engine(binary, args, "textmon")
    doc["engine_args"] = args
    if ctx.tier == "thorough" and not ctx.replay and ctx.pid in ("C12", "C13"):
        # the unchecked constructors (Position::new_unchecked / Span::new_unchecked) under Miri, small scope
        env = dict(ctx.env)
        env["CARGO_TARGET_DIR"] = os.path.join(ctx.root, "target", "miri")
        env["MIRIFLAGS"] = "-Zmiri-disable-isolation -Zmiri-ignore-leaks"
        out = os.path.join(ctx.scratch, "%s-textmon-miri.json" % ctx.pid)
        if os.path.exists(out):
            os.remove(out)
        cmd = ["miri", "run", "--offline", "-p", "textmon", "--", "--prop", ctx.pid, "--tier", "quick", "--seed", str(ctx.seed), "--max-len", "3", "--jobs", "4", "--out", out]
        p = ctx.cargo(cmd, ENGINES_DIR, "Miri pass (strings of length <= 3)", timeout=5400, env=env, toolchain="+nightly")
        if p.returncode == 0 and os.path.exists(out):
            with open(out) as f:
                m = json.load(f)
            doc["counters"]["miri_evaluations"] = m.get("evaluations", 0)
            doc["violations"] += m.get("violations", [])
            for k, v in m.get("violation_counts", {}).items():
                doc["violation_counts"][k] = doc["violation_counts"].get(k, 0) + v
            doc["sanitizers"] = ["Miri (strings of length <= 3)"]
        elif "Undefined Behavior" in p.stdout:
            at = p.stdout.find("Undefined Behavior")
            sig = "unclassified/%s/miri-undefined-behaviour" % ctx.pid
            doc["violations"].append({"signature": sig, "what": "Miri reports undefined behaviour", "witness": {"report": p.stdout[max(0, at - 200):at + 1500]}})
            doc["violation_counts"][sig] = 1
        else:
            doc["inconclusive"].append("Miri pass failed: " + p.stdout[-300:])
    return doc


# ---------------------------------------------------------------------------------------------
# the generated recorder ("harness")
# ---------------------------------------------------------------------------------------------

ALL_FAMILIES = ["core", "repo", "unicode", "kinds", "stack", "slice", "arity", "getter", "rec", "rand", "senum", "random"]
HARNESS_FAMILIES = {
    "C01": ALL_FAMILIES, "C02": ALL_FAMILIES, "C03": ALL_FAMILIES, "C04": ALL_FAMILIES,
    "C05": ["stack", "slice", "repo", "rand", "senum", "random"],
    "C06": ["slice", "stack", "senum"],
    "C07": ["kinds"],
    "C08": ALL_FAMILIES, "C09": ALL_FAMILIES, "C10": ALL_FAMILIES, "C11": ALL_FAMILIES,
    "C15": ALL_FAMILIES, "C16": ALL_FAMILIES,
    "C17": ["arity", "unicode", "core", "repo", "stack", "getter", "rand", "senum", "random"],
    "C18": ALL_FAMILIES,
    "C20": ["rec", "core", "repo", "getter", "stack", "rand", "random"],
}
HARNESS_DIR = os.path.join(ENGINES_DIR, "harness")


X_TARGET = os.path.join("target", "x")  # second configuration: everything with pest's grammar-extras
# properties whose harness check also drives the grammar-extras configuration (shards x_*)
X_PROPS = ["C01", "C02", "C03", "C04", "C05", "C07", "C10", "C11", "C15", "C16", "C17", "C18", "C20"]
X_FAMILIES = ["extras", "core", "getter", "rec", "arity", "repo", "stack"]


def emit_harness(ctx, config="plain"):
    """Regenerate the harness sources from the corpus (files are only rewritten when they change)."""
    if config == "extras":
        ctx.build("vgen", extra=["--features", "vgen/extras", "--target-dir", os.path.join(ctx.root, X_TARGET)])
        vgen = os.path.join(ctx.root, X_TARGET, "release", "vgen")
    else:
        vgen = ctx.build("vgen")
    out = os.path.join(ctx.scratch, "%s-emit%s.json" % (ctx.pid, "-x" if config == "extras" else ""))
    cmd = [vgen, "--cmd", "emit", "--shards", "16", "--tier", ctx.tier, "--seed", str(ctx.seed), "--out", out]
    p = subprocess.run(cmd, cwd=ctx.root, env=ctx.env, stdout=subprocess.PIPE, stderr=subprocess.STDOUT, text=True, timeout=600)
    if p.returncode != 0 or not os.path.exists(out):
        raise Inconclusive("vgen emit failed:\n" + "\n".join(p.stdout.splitlines()[-20:]))
    with open(out) as f:
        doc = json.load(f)
    if doc.get("problems"):
        raise Inconclusive("corpus grammars rejected by pest_meta (corpus bug): %s" % doc["problems"][:3])
    return doc


def attribute_build_errors(ctx, output, bins):
    """Map rustc errors in generated shard files to (grammar module, variant)."""
    import re
    hits = []
    cache = {}
    for m in re.finditer(r"^error(\[E\d+\])?: (.*)\n\s+--> src/bin/([sx]_\w+)\.rs:(\d+):", output, re.M):
        msg, shard, line = m.group(2), m.group(3), int(m.group(4))
        if shard not in cache:
            try:
                with open(os.path.join(ctx.root, HARNESS_DIR, "src", "bin", shard + ".rs")) as f:
                    cache[shard] = f.read().split("\n")
            except OSError:
                cache[shard] = []
        lines = cache[shard]
        text = lines[line - 1] if 0 < line <= len(lines) else ""
        mod = None
        for k in range(min(line, len(lines)) - 1, -1, -1):
            mm = re.match(r"pub mod (\w+) \{", lines[k])
            if mm:
                mod = mm.group(1)
                break
        variant = None
        mv = re.match(r"\s*pub mod (t|tv_\w+|p) \{ #\[derive", text)
        if mv:
            variant = mv.group(1)
        hits.append({"shard": shard, "line": line, "module": mod, "derive_module": variant, "message": msg,
                     "getter_call": "harness::getter_obs" in text and "no method named" in msg})
    return hits


def build_harness(ctx, bins, profile="dev", toolchain=None, extra_env=None, target=None, config="plain"):
    args = ["build", "--offline"]
    if config == "extras":
        args += ["--features", "extras", "--target-dir", os.path.join(ctx.root, X_TARGET)]
    if profile == "release":
        args.append("--release")
    if target:
        args += ["--target", target]
    for b in bins:
        args += ["--bin", b]
    env = dict(ctx.env)
    if extra_env:
        env.update(extra_env)
    p = ctx.cargo(args, HARNESS_DIR, "build harness (%d shards, %s)" % (len(bins), profile), timeout=5400, env=env, toolchain=toolchain)
    if p.returncode != 0:
        hits = attribute_build_errors(ctx, p.stdout, bins)
        derive_hits = [h for h in hits if (h["derive_module"] and h["derive_module"] != "p") or h["getter_call"]]
        if derive_hits and len(derive_hits) == len(hits):
            return None, derive_hits
        tail = "\n".join([l for l in p.stdout.splitlines() if l.startswith("error") or "-->" in l][:30])
        raise Inconclusive("the recorder does not build against /repo (not attributable to derive expansions only):\n" + tail)
    return True, []


def run_shards(ctx, bins, bin_dir, prop, families, extra_args=None, env=None, timeout=5400, wrapper=None, jobs=None):
    procs = []
    njobs = jobs or max(1, 16 // max(1, len(bins)))
    if len(bins) * njobs < 16:
        njobs += 1
    for b in bins:
        out = os.path.join(ctx.scratch, "%s-%s.json" % (ctx.pid, b))
        hb = os.path.join(ctx.scratch, "%s-%s.hb" % (ctx.pid, b))
        for f in [out] + [hb + ".%d" % i for i in range(64)]:
            if os.path.exists(f):
                os.remove(f)
        cmd = (wrapper or []) + [os.path.join(bin_dir, b), "--prop", prop, "--tier", ctx.tier, "--seed", str(ctx.seed), "--jobs", str(njobs),
               "--families", ",".join(families), "--heartbeat", hb, "--out", out] + (extra_args or [])
        log = open(os.path.join(ctx.scratch, "%s-%s.log" % (ctx.pid, b)), "w")
        procs.append((b, out, hb, cmd, subprocess.Popen(cmd, cwd=ctx.root, env=env or ctx.env, stdout=log, stderr=subprocess.STDOUT), log))
    docs, crashes = [], []
    t_end = time.time() + timeout
    for b, out, hb, cmd, p, log in procs:
        try:
            rc = p.wait(timeout=max(1, t_end - time.time()))
        except subprocess.TimeoutExpired:
            p.kill()
            for _, _, _, _, q, _ in procs:
                if q.poll() is None:
                    q.kill()
            raise Inconclusive("watchdog: shard %s did not finish within %ds" % (b, timeout))
        finally:
            log.close()
        if rc == 0 and os.path.exists(out):
            with open(out) as f:
                docs.append(json.load(f))
        else:
            beats = []
            for i in range(64):
                try:
                    with open(hb + ".%d" % i) as f:
                        line = f.readline().strip()
                    if line and line != '"DONE"':
                        beats.append(json.loads(line))
                except (OSError, ValueError):
                    pass
            with open(os.path.join(ctx.scratch, "%s-%s.log" % (ctx.pid, b))) as f:
                tail = f.read()[-1500:]
            crashes.append({"bin": b, "exit": rc, "in_flight": beats, "log_tail": tail, "cmd": cmd})
    return docs, crashes


def confirm_crash(ctx, crash, bin_dir, prop, families, env=None, wrapper=None):
    """Re-run every in-flight case of a dead shard alone; only a reproduced death is a finding."""
    confirmed = []
    for beat in crash["in_flight"]:
        rp = os.path.join(ctx.scratch, "%s-crash-replay.json" % ctx.pid)
        with open(rp, "w") as f:
            json.dump({"witness": beat}, f)
        out = os.path.join(ctx.scratch, "%s-crash-out.json" % ctx.pid)
        cmd = (wrapper or []) + [os.path.join(bin_dir, crash["bin"]), "--prop", prop, "--tier", ctx.tier, "--seed", str(ctx.seed), "--jobs", "1",
               "--families", ",".join(families), "--replay", rp, "--out", out]
        p = subprocess.run(cmd, cwd=ctx.root, env=env or ctx.env, stdout=subprocess.PIPE, stderr=subprocess.STDOUT, text=True, timeout=600)
        if p.returncode != 0:
            confirmed.append({"case": beat, "exit": p.returncode, "output": p.stdout[-800:]})
    return confirmed


def run_harness(ctx, profile="dev", prop=None, families=None, extra_args=None):
    """The plain configuration, plus (for X_PROPS, dev profile) the grammar-extras configuration."""
    prop = prop or ctx.pid
    if ctx.replay:
        with open(ctx.replay) as f:
            w = json.load(f).get("witness") or {}
        return run_harness_cfg(ctx, profile, prop, families, extra_args, "extras" if w.get("config") == "extras" else "plain")
    plain = run_harness_cfg(ctx, profile, prop, families, extra_args, "plain")
    if prop not in X_PROPS or profile != "dev" or families is not None:
        return plain
    fams = [f for f in X_FAMILIES if f in HARNESS_FAMILIES[prop] or f == "extras"]
    extras = run_harness_cfg(ctx, profile, prop, fams, extra_args, "extras")
    keep = {k: plain.get(k) for k in ("max_tick_ratio_x100", "engine_args", "rule")}
    extras["counters"] = dict(extras.get("counters", {}), **{"extras_config_cases": extras.get("evaluations", 0), "extras_config_programs": extras.get("programs", 0)})
    merged = merge_results([plain, extras])
    merged.update(keep)
    merged["programs"] = plain.get("programs", 0) + extras.get("programs", 0)
    merged["rules"] = plain.get("rules", 0) + extras.get("rules", 0)
    merged["builds"] = [profile, profile + "+grammar-extras"]
    merged["max_tick_ratio_x100"] = max(plain.get("max_tick_ratio_x100", 0), extras.get("max_tick_ratio_x100", 0))
    return merged


def run_harness_cfg(ctx, profile="dev", prop=None, families=None, extra_args=None, config="plain"):
    prop = prop or ctx.pid
    fams = families or HARNESS_FAMILIES[prop]
    emit = emit_harness(ctx, config)
    bins = [s["bin"] for s in emit["shards"] if s["family"] in fams and s["grammars"]]
    if ctx.replay:
        with open(ctx.replay) as f:
            w = json.load(f).get("witness") or {}
        gid = w.get("grammar_id")
        bins = [s["bin"] for s in emit["shards"] if gid in s["grammars"]]
        if not bins:
            raise Inconclusive("replay: grammar %s is not part of the current corpus (a thorough-tier random grammar needs the same VERIF_SEED and --tier thorough)" % gid)
        extra_args = (extra_args or []) + ["--replay", ctx.replay]
    ok, derive_errors = build_harness(ctx, bins, profile, config=config)
    result = {"evaluations": 0, "distinct_nontrivial": 0, "counters": {}, "samples": [], "violations": [], "violation_counts": {},
              "inconclusive": [], "notes": []}
    if not ok:
        # generated code does not compile: a verdict for C11 / C20, nothing can be said for the others
        getter_hits = [h for h in derive_errors if h.get("getter_call")]
        if getter_hits and len(getter_hits) == len(derive_errors):
            # every error is "no method named <rule>" on a getter call the recorder emitted from the
            # rule's expression: the derive did not generate an accessor for a rule the expression mentions
            if prop == "C16":
                h = getter_hits[0]
                sig = "unclassified/C16/getter-not-generated"
                result["violations"].append({"signature": sig, "what": "grammar module %s: %s (the rule's expression mentions that rule outside negative predicates, so emit_rule_reference must generate the accessor)" % (h["module"], h["message"]),
                                             "witness": {"errors": getter_hits[:10], "config": config}})
                result["violation_counts"][sig] = len(getter_hits)
                result["distinct_nontrivial"] = 2
                result["evaluations"] = len(getter_hits)
                return result
            raise Inconclusive("a getter the recorder calls is not generated (%s: %s); see C16" % (getter_hits[0]["module"], getter_hits[0]["message"]))
        if prop in ("C11", "C20"):
            h = derive_errors[0]
            sig = "unclassified/%s/generated-code-does-not-compile" % prop
            result["violations"].append({"signature": sig, "what": "the derive expansion of grammar module %s (%s) does not compile: %s" % (h["module"], h["derive_module"], h["message"]),
                                         "witness": {"errors": derive_errors[:10]}})
            result["violation_counts"][sig] = len(derive_errors)
            result["distinct_nontrivial"] = 2
            result["evaluations"] = len(derive_errors)
            return result
        raise Inconclusive("generated code of %s does not compile (%s); see C11 / C20" % (derive_errors[0]["module"], derive_errors[0]["message"]))
    bin_dir = os.path.join(ctx.root, X_TARGET if config == "extras" else "target", "release" if profile == "release" else "debug")
    docs, crashes = run_shards(ctx, bins, bin_dir, prop, fams, extra_args)
    merged = merge_results(docs) if docs else result
    merged["programs"] = sum(d.get("programs", 0) for d in docs)
    merged["rules"] = sum(d.get("rules", 0) for d in docs)
    merged["builds"] = [profile]
    merged["max_tick_ratio_x100"] = max([d.get("max_tick_ratio_x100", 0) for d in docs] or [0])
    merged["engine_args"] = {"prop": prop, "families": fams}
    for c in crashes:
        confirmed = confirm_crash(ctx, c, bin_dir, prop, fams)
        if confirmed:
            sig = "unclassified/%s/process-died" % ("C09" if prop != "C11" else "C11")
            if prop in ("C09", "C11"):
                merged["violations"].append({"signature": sig, "what": "the recorder process died (exit %s) while running this case, reproducibly" % confirmed[0]["exit"], "witness": confirmed[0]["case"] | {"output": confirmed[0]["output"]}})
                merged["violation_counts"][sig] = merged["violation_counts"].get(sig, 0) + len(confirmed)
            else:
                merged["inconclusive"].append("shard %s died (exit %s) reproducibly on %s; C09 reports this" % (c["bin"], c["exit"], json.dumps(confirmed[0]["case"])[:300]))
        else:
            merged["inconclusive"].append("shard %s died (exit %s) and the death was not reproduced in isolation: %s" % (c["bin"], c["exit"], c["log_tail"][-300:]))
    merged["rule"] = HARNESS_RULE
    return merged


HARNESS_RULE = ("a case = (grammar, entry rule, input string, optional text before/behind it) executed on the generated typed parser, on the parser pest_derive "
                "generates from the same text and on the reference interpreter; inputs per (grammar, rule) are seeded random derivations, their mutations, all strings of up to "
                "6 grammar tokens (capped) and hostile strings, deduplicated, so every case is distinct; non-trivial = the typed prefix parse consumed at least one byte, or "
                "failed on a non-empty input")

def run_rtmon(ctx, prop=None):
    binary = ctx.build("rtmon")
    doc = ctx.run_engine(binary, ["--prop", prop or ctx.pid], "rtmon")
    doc["engine_args"] = {"engine": "rtmon", "prop": prop or ctx.pid}
    return doc


def run_c06(ctx):
    if ctx.replay:
        return run_harness(ctx)
    direct = run_rtmon(ctx, "C06")
    generated = run_harness(ctx)
    merged = merge_results([direct, generated])
    merged["exhaustive"] = True
    merged["scope"] = direct.get("scope", "") + "; plus the slice and stack grammar families through generated parsers (atomic and non-atomic context)"
    merged["rule"] = direct.get("rule", "") + " || " + HARNESS_RULE
    return merged


def pick_sanitizer_bins(emit, count):
    """One shard per family, in this order of relevance for cursor arithmetic."""
    order = ["core", "stack", "repo", "unicode", "rand", "arity", "getter", "rec", "senum", "random"]
    picked = []
    for fam in order:
        for s in emit["shards"]:
            if s["family"] == fam and s["grammars"]:
                picked.append(s["bin"])
                break
        if len(picked) >= count:
            break
    return picked


def sanitizer_run(ctx, label, bins, bin_dir, scale, env=None, wrapper=None, jobs=None, timeout=3600):
    """Run C09's workload on uninstrumented-hook builds under a sanitizer / valgrind."""
    fams = [f for f in ALL_FAMILIES]
    docs, crashes = run_shards(ctx, bins, bin_dir, "C09", fams, ["--scale", str(scale)], env=env, wrapper=wrapper, jobs=jobs, timeout=timeout)
    merged = merge_results(docs) if docs else {"evaluations": 0, "distinct_nontrivial": 0, "counters": {}, "samples": [], "violations": [], "violation_counts": {}, "inconclusive": [], "notes": []}
    merged["counters"] = {"%s_%s" % (label, k): v for k, v in merged.get("counters", {}).items() if k in ("entry_point_calls", "rules_driven")}
    merged["counters"]["%s_cases" % label] = merged.get("evaluations", 0)
    for c in crashes:
        # a sanitizer report ends the process: the report itself is the witness
        tail = c["log_tail"]
        reported = any(k in tail for k in ("AddressSanitizer", "Invalid read", "Invalid write", "ERROR SUMMARY", "Undefined Behavior", "error: Undefined", "unsafe precondition"))
        if reported:
            sig = "unclassified/C09/%s-report" % label
            merged["violations"].append({"signature": sig, "what": "%s reported an error (exit %s) while running %s" % (label, c["exit"], c["bin"]),
                                         "witness": {"in_flight": c["in_flight"][:4], "report_tail": tail[-1200:], "cmd": " ".join(c["cmd"])}})
            merged["violation_counts"][sig] = merged["violation_counts"].get(sig, 0) + 1
        else:
            merged["inconclusive"].append("%s run of %s ended with exit %s without a recognisable report: %s" % (label, c["bin"], c["exit"], tail[-300:]))
    return merged


def run_c09(ctx):
    docs = [run_harness(ctx, profile="dev")]
    # release: debug assertions off (unchecked slicing); the kind-nesting and slice families add
    # nothing to the cursor arithmetic and are left out to keep the optimised build affordable
    docs.append(run_harness(ctx, profile="release", families=[f for f in ALL_FAMILIES if f not in ("kinds", "slice")]))
    builds = ["dev (debug assertions on, hooks on)", "release (unchecked slicing, boundary hooks on)"]
    sanitizers = []
    if not ctx.replay:
        emit = emit_harness(ctx)
        thorough = ctx.tier == "thorough"
        # --- valgrind memcheck on a release build WITHOUT the hooks (a stray cursor must reach the slicing)
        bins = pick_sanitizer_bins(emit, 4 if thorough else 2)
        env = dict(ctx.env)
        env["CARGO_TARGET_DIR"] = os.path.join(ctx.root, "target", "nohooks")
        args = ["build", "--offline", "--release", "--no-default-features"]
        for b in bins:
            args += ["--bin", b]
        p = ctx.cargo(args, HARNESS_DIR, "build harness without hooks (release, %d shards)" % len(bins), timeout=5400, env=env)
        if p.returncode != 0:
            raise Inconclusive("the hook-less release build failed:\n" + "\n".join(p.stdout.splitlines()[-20:]))
        vg = sanitizer_run(ctx, "valgrind", bins, os.path.join(ctx.root, "target", "nohooks", "release"), 0.2 if thorough else 0.04,
                           wrapper=["valgrind", "--error-exitcode=9", "-q", "--undef-value-errors=no"], jobs=1, timeout=5400)
        docs.append(vg)
        builds.append("release without hooks under valgrind memcheck (invalid reads/writes; undefined-value reports off, see DESIGN 6/C09)")
        sanitizers.append("valgrind-memcheck")
        if thorough:
            # --- AddressSanitizer
            env = dict(ctx.env)
            env["CARGO_TARGET_DIR"] = os.path.join(ctx.root, "target", "asan")
            env["RUSTFLAGS"] = "-Zsanitizer=address -Cforce-frame-pointers=yes"
            args = ["build", "--offline", "--release", "--no-default-features", "--target", "x86_64-unknown-linux-gnu"]
            for b in bins:
                args += ["--bin", b]
            p = ctx.cargo(args, HARNESS_DIR, "build harness with AddressSanitizer (%d shards)" % len(bins), timeout=5400, env=env, toolchain="+nightly")
            if p.returncode != 0:
                raise Inconclusive("the AddressSanitizer build failed:\n" + "\n".join(p.stdout.splitlines()[-20:]))
            renv = dict(ctx.env)
            renv["ASAN_OPTIONS"] = "detect_leaks=0:abort_on_error=1:halt_on_error=1"
            docs.append(sanitizer_run(ctx, "asan", bins, os.path.join(ctx.root, "target", "asan", "x86_64-unknown-linux-gnu", "release"), 1.0, env=renv, timeout=5400))
            builds.append("release without hooks, -Zsanitizer=address")
            sanitizers.append("AddressSanitizer")
            # --- Miri (release profile: debug assertions off, so the get_unchecked branch is interpreted)
            docs.append(run_miri(ctx, emit, bins[:2]))
            builds.append("Miri, release profile without hooks (a few rules per shard; ~5 s per case)")
            sanitizers.append("Miri")
    merged = merge_results(docs)
    merged["builds"] = builds
    merged["sanitizers"] = sanitizers
    merged["rule"] = HARNESS_RULE + "; every case is executed once per build (evaluations count all builds, distinct cases are counted per build)"
    return merged


def run_miri(ctx, emit, bins):
    """Interpret a handful of rules per shard under Miri (16 processes in parallel)."""
    env = dict(ctx.env)
    env["CARGO_TARGET_DIR"] = os.path.join(ctx.root, "target", "miri")
    env["MIRIFLAGS"] = "-Zmiri-disable-isolation -Zmiri-ignore-leaks"
    result = {"evaluations": 0, "distinct_nontrivial": 0, "counters": {}, "samples": [], "violations": [], "violation_counts": {}, "inconclusive": [], "notes": []}
    procs = []
    for b in bins:
        grammars = [s["grammars"] for s in emit["shards"] if s["bin"] == b][0]
        # build once (cargo miri run builds; the first process per bin does it, the others wait on the lock)
        for k, g in enumerate(grammars[:4]):
            for sub in range(2):
                out = os.path.join(ctx.scratch, "C09-miri-%s-%d-%d.json" % (b, k, sub))
                if os.path.exists(out):
                    os.remove(out)
                cmd = ["cargo", "+nightly", "miri", "run", "--offline", "--release", "--no-default-features", "--bin", b, "--",
                       "--prop", "C09", "--tier", "quick", "--seed", str(ctx.seed + sub), "--scale", "0.01", "--jobs", "1", "--only", g + "/", "--max-rules", "1", "--rule-offset", str(sub * 3), "--max-input-len", "96",
                       "--families", ",".join(ALL_FAMILIES), "--out", out]
                log = open(os.path.join(ctx.scratch, "C09-miri-%s-%d-%d.log" % (b, k, sub)), "w")
                procs.append((out, log, cmd, subprocess.Popen(cmd, cwd=os.path.join(ctx.root, HARNESS_DIR), env=env, stdout=log, stderr=subprocess.STDOUT)))
    for out, log, cmd, p in procs:
        try:
            rc = p.wait(timeout=4 * 3600)
        except subprocess.TimeoutExpired:
            p.kill()
            result["inconclusive"].append("Miri watchdog fired")
            continue
        finally:
            log.close()
        with open(log.name) as f:
            text = f.read()
        if rc == 0 and os.path.exists(out):
            with open(out) as f:
                d = json.load(f)
            result["evaluations"] += d.get("evaluations", 0)
            result["distinct_nontrivial"] += d.get("distinct_nontrivial", 0)
            result["counters"]["miri_cases"] = result["counters"].get("miri_cases", 0) + d.get("evaluations", 0)
            result["counters"]["miri_entry_point_calls"] = result["counters"].get("miri_entry_point_calls", 0) + d.get("counters", {}).get("entry_point_calls", 0)
            for v in d.get("violations", []):
                result["violations"].append(v)
            for k, v in d.get("violation_counts", {}).items():
                result["violation_counts"][k] = result["violation_counts"].get(k, 0) + v
        elif "Undefined Behavior" in text or "error: unsupported operation" in text or "unsafe precondition" in text:
            if "Undefined Behavior" in text or "unsafe precondition" in text:
                sig = "unclassified/C09/miri-undefined-behaviour"
                at = text.find("Undefined Behavior")
                result["violations"].append({"signature": sig, "what": "Miri reports undefined behaviour", "witness": {"cmd": " ".join(cmd), "report": text[max(0, at - 200):at + 1500]}})
                result["violation_counts"][sig] = result["violation_counts"].get(sig, 0) + 1
            else:
                result["inconclusive"].append("Miri: unsupported operation: " + text[-300:])
        else:
            result["inconclusive"].append("Miri run failed (exit %s): %s" % (rc, text[-300:]))
    return result


def run_vgen(ctx, cmd, name, extra=None, config="plain"):
    if config == "extras":
        ctx.build("vgen", extra=["--features", "vgen/extras", "--target-dir", os.path.join(ctx.root, X_TARGET)])
        vgen = os.path.join(ctx.root, X_TARGET, "release", "vgen")
    else:
        vgen = ctx.build("vgen")
    return ctx.run_engine(vgen, ["--cmd", cmd] + (extra or []), name)


def probe_inherited(ctx):
    """Known finding of C11: does a grammar using the Unicode property INHERITED compile?"""
    p = ctx.cargo(["build", "--offline", "--manifest-path", os.path.join(ctx.root, ENGINES_DIR, "probes", "inherited", "Cargo.toml")], ".", "compile probe (Unicode property INHERITED)", timeout=1800)
    doc = {"evaluations": 1, "distinct_nontrivial": 1, "counters": {"compile_probes": 1}, "samples": [], "violations": [], "violation_counts": {}, "inconclusive": [], "notes": []}
    if p.returncode == 0:
        doc["counters"]["compile_probe_compiled"] = 1
        return doc
    errors = [l for l in p.stdout.splitlines() if l.startswith("error")]
    e0747 = [l for l in errors if "E0747" in l]
    if e0747:
        sig = "C11/known/grammar-using-unicode-property-INHERITED-does-not-compile"
    elif any("could not compile `probe_inherited`" in l for l in errors) and all(("probe_inherited" in l or "E0" in l) for l in errors):
        sig = "unclassified/C11/compile-probe-fails-differently"
    else:
        raise Inconclusive("compile probe failed outside the probe crate:\n" + "\n".join(errors[:10]))
    doc["violations"].append({"signature": sig, "what": "a pest-valid grammar that uses the Unicode property INHERITED does not compile: " + (e0747[0] if e0747 else errors[0]),
                              "witness": {"grammar": "mark = { INHERITED+ }", "crate": "engines/probes/inherited", "errors": errors[:5]}})
    doc["violation_counts"][sig] = 1
    return doc


def run_c11(ctx):
    if ctx.replay:
        return run_harness(ctx)
    docs = [run_harness(ctx)]
    g = run_vgen(ctx, "c11", "vgen-c11")
    docs.append(g)
    # the same monitor with pest's grammar-extras on in pest_meta and in the generator (`e+` and tags kept)
    gx = run_vgen(ctx, "c11", "vgen-c11-x", config="extras")
    gx["counters"] = {("extras_config_" + k): v for k, v in gx.get("counters", {}).items()}
    docs.append(gx)
    docs.append(probe_inherited(ctx))
    merged = merge_results(docs)
    merged["rule"] = HARNESS_RULE + " || " + g.get("rule", "")
    return merged


def run_c20(ctx):
    if ctx.replay:
        return run_harness(ctx)
    h = run_harness(ctx)
    # determinism: the token stream of every (grammar, option set) in three separate processes
    runs = [run_vgen(ctx, "c20det", "vgen-c20det-%d" % i) for i in range(3)]
    runs_x = [run_vgen(ctx, "c20det", "vgen-c20det-x-%d" % i, config="extras") for i in range(3)]
    for r, rx in zip(runs, runs_x):
        r["streams"].update({"grammar-extras/" + k: v for k, v in rx["streams"].items()})
    det = {"evaluations": 0, "distinct_nontrivial": 0, "counters": {}, "samples": [], "violations": [], "violation_counts": {}, "inconclusive": [], "notes": []}
    base = runs[0]["streams"]
    pids = {r["pid"] for r in runs}
    det["counters"]["generator_processes"] = len(pids)
    for key, v in base.items():
        det["evaluations"] += 1
        det["distinct_nontrivial"] += 1
        det["counters"]["token_streams_compared"] = det["counters"].get("token_streams_compared", 0) + 1
        others = [r["streams"].get(key) for r in runs[1:]]
        if any(o != v for o in others):
            sig = "unclassified/C20/nondeterministic-generation"
            det["violation_counts"][sig] = det["violation_counts"].get(sig, 0) + 1
            if len(det["violations"]) < 3:
                det["violations"].append({"signature": sig, "what": "the generated token stream for %s differs between processes: %s vs %s" % (key, v, others), "witness": {"key": key, "streams": [v] + others}})
        if v.startswith("panic:"):
            sig = "unclassified/C20/generator-panics-under-option-set"
            det["violation_counts"][sig] = det["violation_counts"].get(sig, 0) + 1
            if len(det["violations"]) < 3:
                det["violations"].append({"signature": sig, "what": "the generator panics for %s: %s" % (key, v), "witness": {"key": key}})
    if base:
        k0 = sorted(base)[0]
        det["samples"].append({"key": k0, "stream_len_and_hash": base[k0], "processes": sorted(pids)})
    merged = merge_results([h, det])
    merged["programs"] = h.get("programs", 0)
    merged["rule"] = HARNESS_RULE + " || determinism: one (grammar, option set) token stream hashed in three separate generator processes"
    return merged


TRUST_PEST_TEXT = [
    "pest 2.7.14's Position/Span are the reference (the only pest version available offline, inside the repository's version bound)",
    "only x86_64-linux, release profile of the engine (the checked functions contain no cfg(debug_assertions) branches)",
]

HOOK_COMMITS = ["fea8122"]

TRUST_HARNESS = [
    "pest / pest_derive / pest_meta 2.7.14 (the only versions available offline, inside the repository's bound) are the reference where pest is defined",
    "the reference interpreter engines/refpeg decides the cases pest leaves undefined; it is cross-checked against pest on every defined case of every run (counter model_conflict_* must be 0)",
    "dev profile (debug assertions on) unless the check says otherwise; x86_64-linux",
    "held = held on the executions listed under coverage; grammars outside the families and inputs beyond the generated sets are not covered",
]


def harness_prop(pid, technique, text, note, required, level="exploration", design=None):
    return {
        "run": run_harness,
        "engine": "harness",
        "technique": technique,
        "design_ref": design or ("6/" + pid),
        "level_text": text,
        "level_note": note,
        "level": level,
        "required": required,
        "assumptions": TRUST_HARNESS,
    }

NOT_APPLICABLE = {}
ENGINES = [
    {"name": "rtmon", "path": "engines/rtmon", "serves_properties": ["C06", "C19"],
     "kind_free_text": "small-scope exhaustive monitors on raw combinators and stack nodes instantiated directly from pest_typed (no generated parser)"},
    {"name": "harness", "path": "engines/harness", "serves_properties": ["C01", "C02", "C03", "C04", "C05", "C06", "C07", "C08", "C09", "C10", "C11", "C15", "C16", "C17", "C18", "C20"],
     "kind_free_text": "generated recorder: per corpus grammar the real derive (pest_typed_derive) and pest_derive side by side, generic case runner over the public API, oracles (pest, reference interpreter, self-differential), sharded binaries (sources emitted by vgen, gitignored)"},
    {"name": "refpeg", "path": "engines/refpeg", "serves_properties": ["C01", "C02", "C04", "C05", "C06", "C07", "C10", "C11", "C16", "C17", "C20"],
     "kind_free_text": "reference PEG interpreter over pest_meta's optimized/raw ASTs (immutable stack; attempt trace; mention labels; derivation events; emulation switches for known findings) and workload generator"},
    {"name": "vgen", "path": "engines/vgen", "serves_properties": ["C11", "C20"],
     "kind_free_text": "corpus loader/generator and harness source emitter; generator-level monitors"},
    {"name": "textmon", "path": "engines/textmon", "serves_properties": ["C12", "C13", "C14"],
     "kind_free_text": "exhaustive small-scope differential monitor: pest_typed Position/Span/formatter vs pest::Position/pest::Span and an independent line/cell model"},
]

PROPS = {
    "C01": harness_prop(
        "C01", "differential runtime monitor: generated typed parser vs the parser pest_derive generates vs reference PEG interpreter (refpeg, full backtracking) on a grammar corpus",
        "Every rule of every corpus grammar (all operators, rule kinds, built-ins incl. 258 Unicode properties, stack forms, four skip configurations; thorough: + seeded random grammars) is used as entry point on seeded sentences, mutations, small-scope exhaustive token strings and hostile strings; verdict and consumed offset of try_parse_partial are compared with pest (wrapper-rule end offset) and, where pest panics or skips a restore, with refpeg. translation_validation: programs = grammars compiled by the real derive, every case a checked disagreement candidate.",
        "pest is the oracle iff it agrees with refpeg(Full) or the rule reaches no stack operation; a pest/refpeg disagreement without stack operations is a model conflict (case dropped, counted, must be 0)",
        {"verdicts_compared": 100000, "typed_accepted": 10000, "typed_rejected": 10000, "oracle_pest": 100000, "oracle_refpeg_pest_panicked": 100},
        level="translation_validation"),
    "C02": harness_prop(
        "C02", "differential runtime monitor on token trees: Pairs/Pair API vs pest Pairs pruned below @/$ tokens (refpeg tree where pest is undefined)",
        "For every accepted case of the corpus run the tokens exposed by Pairs::self_or_children and Pair::as_thin_token (rule, start, end, children in order) are compared with pest's pair tree after removing descendants of atomic / compound-atomic tokens.",
        "kinds of rules are read from pest_meta's AST; trees are only compared when verdict and offset already agree (C01 reports the rest)",
        {"trees_compared": 20000, "thin_tokens_compared": 10000},
        level="translation_validation"),
    "C03": harness_prop(
        "C03", "self-differential runtime monitor: check entry points vs parse entry points on three input forms, plus raw Tracker state with an explicit stack",
        "try_check_partial vs try_parse_partial and try_check vs try_parse on &str, Position and Span forms: same verdict, same cursor, identical error (location, line/col, Display); with a harness-owned Stack and Tracker the raw Tracker::finish() of both paths must be identical on failure.",
        "no external oracle needed; cases where both paths unwind are left to C09",
        {"check_vs_parse_agreed_ok": 20000, "check_vs_parse_agreed_err": 100000, "trackers_compared": 100000}),
    "C04": harness_prop(
        "C04", "runtime monitor: full-parse entry points vs prefix parse + independent trailing-skip computation (refpeg skip on the same window)",
        "try_parse, try_check, TypedParser::try_parse/try_check and the &String form are compared with: prefix parse offset, then the implicit skip computed by the reference interpreter (none for @/$ entry rules), then end of input; the tree returned must be the prefix parse's (Debug identity).",
        "the prefix offset itself is judged by C01; skippable and almost-skippable tails are appended to sentences by the workload generator",
        {"full_parse_expected_ok": 10000, "full_parse_expected_err_unread_input": 10000, "trailing_skip_nonempty": 1000}),
    "C05": harness_prop(
        "C05", "invariant hooks (stack before/after every failed alternative / optional / iteration and every predicate, both code paths) + differential against refpeg with an immutable stack",
        "Hooks at the call sites of choices!, Option, the repetition loops and both predicates record the stack when the construct is entered and left; any difference after a non-contributing attempt is a violation (recognised as the known nested-snapshot finding only if refpeg driven with the real pest::Stack in pest-typed's call pattern shows the same event). Black box: acceptance/offset of stack-dump-probed rules vs refpeg(Full).",
        "hook kinds that are never observed make the check inconclusive (required counters)",
        {"hook_failed_choice": 1000, "hook_failed_optional": 1000, "hook_failed_iteration": 1000, "hook_failed_positive": 100, "hook_failed_negative": 100,
         "hook_stack_touched_then_undone_choice": 100, "hook_stack_touched_then_undone_optional": 100, "hook_stack_touched_then_undone_iteration": 100,
         "hook_stack_touched_then_undone_positive": 100, "hook_stack_touched_then_undone_negative": 100}),
    "C07": harness_prop(
        "C07", "differential runtime monitor on the kind-nesting family: offsets and token spans vs the pest_derive parser",
        "All 125 nestings (depth 3) of the five rule kinds around a body with a sequence, *, + and {2}, under four WHITESPACE/COMMENT configurations (none, silent WS, silent COMMENT, non-silent both): verdict, offset and pruned token tree vs pest on sentences with skippable text at legal and illegal gaps.",
        "these grammars have no stack operations, so pest is always the oracle",
        {"verdicts_compared": 100000, "trees_compared": 10000, "typed_accepted": 10000},
        level="translation_validation"),
    "C08": harness_prop(
        "C08", "self-differential runtime monitor: Span / Position sub-inputs vs a fresh owned copy of the slice, offsets shifted",
        "Every case is executed on an owned copy of s and on Span(pre+s+post, |pre|, |pre|+|s|) / Position(pre+s, |pre|) where pre/post are attractive to the grammar (continue literals, complete needles, skippable text), plus all pairs of char-boundary cuts of sampled inputs; verdict, consumed length, tokens (shifted) and error location must agree for the partial and full entry points.",
        "the owned-slice run is tied to pest by C01",
        {"span_form_cases": 100000, "span_form_with_text_behind_the_end": 10000, "span_form_with_text_before_the_start": 10000, "subinput_agreed_ok": 20000}),
    "C10": harness_prop(
        "C10", "runtime monitor over error reports: bounds, prefix, stability; truthfulness against the reference interpreter's attempt trace (hook trace used to detect diverged executions)",
        "Every rejected case: location on a boundary inside the input and not before the matched prefix, line/col equal to pest::Position's, rendering does not panic and is stable across runs; Tracker::finish() obtained with an explicit tracker equals the rendered lists, and every rule listed expected (unexpected) has a failing (matching) attempt at that position in refpeg's trace.",
        "truthfulness is only judged when every tracked attempt of the real run also occurs in the model trace (otherwise the executions diverged; counted as inconclusive for that case)",
        {"error_reports_checked": 100000, "expected_rules_checked": 50000, "unexpected_rules_checked": 20, "c10_display_lists_compared": 50000}),
    "C15": harness_prop(
        "C15", "runtime monitor: traversal helpers vs own DFS/BFS over the token tree",
        "For every accepted case of a non-silent rule: children() vs as_token().children, as_thin_token vs as_token, span(), pre-order with depths vs own DFS, level-order vs own BFS, format_as_tree vs own rendering, callback-error propagation, nesting and sibling order of spans.",
        "as_token() is also compared with the reference tree (children() is the primitive every helper is built on, so a fault in it leaves the helpers consistent with each other); a difference that is exactly a known finding of C02 is counted, not reported",
        {"pairs_checked": 20000, "trees_traversed": 20000, "tokens_traversed": 50000, "tokens_tied_to_reference": 20000}),
    "C16": harness_prop(
        "C16", "runtime monitor: generated getters (emit_rule_reference) vs mention labels recorded by the reference interpreter",
        "For every accepted case every generated getter of the entry rule is called and flattened (Vec-major, tuple-slot-minor); node count and spans must equal the matches refpeg committed directly in the rule's own expression in derivation order, the static Option/Vec/tuple shape must equal the shape computed from the optimized expression, and the addresses of the nodes handed out must be, in order, the addresses of the nodes the structure walker reaches inside the rule's content (identity, independent of the model).",
        "only compared when verdict/offset agree with the model; a getter missing from the generated code is a build error attributed to the derive expansion",
        {"getters_called": 50000, "getters_with_nodes": 20000, "getter_identity_checks": 50000}),
    "C17": harness_prop(
        "C17", "generated structure walker calling every accessor of choices / sequences / repetitions / leaves; event list vs the reference interpreter's derivation",
        "vgen emits, per rule, code that calls _k(), if_then/else_if/else_then, reference(), consume(), match_choices!, get_matched/get_all/as_ref/into_matched, iter_matched/iter_all/into_iter_matched and the content/span fields of every leaf kind on the parsed tree; accessor-internal contradictions are findings on the spot and the resulting event list (alternative index, iteration counts, skip item counts, leaf characters/spellings/NEWLINE kinds/PEEK-POP-skip texts) must equal refpeg's derivation events.",
        "arities 2..16 incl. macro-generated >= 12; PEEK/POP spans are compared by text (the property's wording), not by offset",
        {"trees_walked": 20000, "accessor_events": 100000, "accessor_kind_C": 5000, "accessor_kind_*": 5000, "accessor_kind_X": 5000, "accessor_kind_P": 500, "accessor_kind_NL": 300, "accessor_kind_I": 300}),
    "C18": harness_prop(
        "C18", "runtime monitor over values: clone/==/Hash/Debug of results, two parses of one input object, results through different sub-ranges of one string object compared pairwise",
        "clone == original (both ways), same Debug, same hash; two parses of the same &str compare equal and hash equally; for up to six windows of one parent string all ordered pairs: a == b iff Debug(a) == Debug(b), and then equal hashes.",
        "SipHash with fixed keys (DefaultHasher::new)",
        {"values_checked": 20000, "reparsed_twice": 100000, "result_pairs_compared": 100000, "result_pairs_equal": 20000}),
    "C19": {
        "run": run_rtmon,
        "engine": "rtmon",
        "technique": "small-scope exhaustive runtime monitor on combinators instantiated directly from the runtime crate, against a list-level model written from the statement; parse vs check self-differential",
        "design_ref": "6/C19",
        "level_text": "345 instantiations (RepMinMax for all MIN,MAX in 0..=4 incl. MIN>MAX, RepMin, RepExact, Rep, RepOnce with skip on/off; [T;N]; (T1,T2); Option; AtomicRepeat; SkipChar) x four element kinds (string, choice, nested repetition, PUSH~POP) x every string of length <= 8 (thorough 9) over {x, y, space}: verdict, cursor, element count, bounds, stack afterwards, parse vs check.",
        "level_note": "the model is 20 lines written from the property statement (greedy, skip only kept before a matched iteration, fail iff fewer than MIN or bounds unsatisfiable)",
        "level": "exploration",
        "required": {"instantiations_RepMinMax": 200, "instantiations_RepMin": 40, "instantiations_array": 20, "instantiations_pair": 16, "instantiations_SkipChar": 5, "instantiations_Skip": 6, "matched": 100000, "failed": 100000},
        "assumptions": ["release profile of the engine; x86_64-linux", "elements never match the empty string (so zero-progress iterations, which the statement does not cover, do not occur)"],
    },
    "C06": dict(harness_prop(
        "C06", "differential runtime monitor on the slice / stack families (final stack contents with a harness-owned Stack) + small-scope exhaustive direct instantiation of the stack nodes (rtmon)",
        "Generated parsers for PUSH ... PEEK[a..b] with every a,b in -6..6 (and open-ended) in atomic and non-atomic context and for every stack built-in inside every backtracking construct: verdict/offset vs pest or refpeg, and the contents of the explicit Stack after try_parse_partial_with / try_check_partial_with vs the model's stack.",
        "empty-stack PEEK/POP/DROP must fail, not unwind (an unwind is reported here and by C09)",
        {"verdicts_compared": 50000, "final_stacks_compared": 5000, "oracle_refpeg_pest_panicked": 500, "stacks": 341, "slices_out_of_range": 10000, "slices_empty": 5000, "model_accepts": 50000}), run=run_c06, engine="rtmon+harness"),
    "C09": {
        "run": run_c09,
        "engine": "harness",
        "technique": "runtime monitors in two build profiles: catch_unwind at every entry point, boundary hooks that stay on in release, offset range/boundary assertions on everything reported; process exit status",
        "design_ref": "6/C09",
        "level_text": "All entry points on &str, &String, Position and Span forms over hostile alphabets (1-4 byte characters, CR/LF, the grammar's literals cut inside multi-byte neighbours), in the dev profile and in the release profile (where slicing is unchecked and the verif-hooks boundary monitor turns a stray cursor into a recorded event): no unwind, every cursor / token span / error location / stack entry inside the input range on a char boundary, span text can be taken, and the recorder process never dies (a dead shard is re-run on the in-flight case to confirm).",
        "level_note": "a clean run is not memory safety: only paths the workload reaches; inputs are exact-capacity heap buffers so that an out-of-range read leaves the allocation",
        "level": "exploration",
        "required": {"entry_point_calls": 1000000, "hook_cursor_checks": 1000000, "valgrind_cases": 500},
        "assumptions": TRUST_HARNESS,
    },
    "C11": {
        "run": run_c11,
        "engine": "harness+vgen",
        "technique": "generator called as a library under catch_unwind vs pest_meta's validator verdict on ill-formed / edited grammars; rustc on the corpus expansions; bounded-progress monitor (logical step budget hook, 100 x reference steps + 50 000) on every parse",
        "design_ref": "6/C11",
        "level_text": "The real derive_typed_parser is called under catch_unwind on a hand-made ill-formed family (left recursion direct/indirect/through optionals, predicates, silent rules, PUSH; non-failing or non-progressing repetition bodies; unreachable alternatives; non-progressing skip rules), on every corpus grammar and on seeded textual edits of them: it must refuse exactly what pest_meta's validator refuses for those four categories and must not panic on what pest accepts. Termination is restated as bounded progress: every entry point on every case must finish within 100 x (reference interpreter steps) + 50 000 hook ticks (largest ratio observed on the unchanged tree: see max_tick_ratio_x100 in the evidence, about 1.2), counted deterministically; a wall-clock watchdog only yields 'inconclusive'. All corpus grammars are compiled by the real derive; a compile error located in a derive expansion is a violation.",
        "level_note": "grammars that pest accepts but that are not well-founded on an input (runaway recursion through a predicate, non-progressing repetition) are detected by the model and excluded, as the property's precondition says",
        "level": "exploration",
        "required": {"parses_with_step_budget": 100000, "hook_ticks": 1000000, "refused_by_both": 100, "generated_for_valid": 100,
                     "rejected_by_pest_left-recursion": 10, "rejected_by_pest_repetition-body-cannot-fail-or-progress": 10,
                     "rejected_by_pest_unreachable-alternative": 10, "rejected_by_pest_non-progressing-skip-rule": 5, "compile_probes": 1},
        "assumptions": TRUST_HARNESS,
    },
    "C20": {
        "run": run_c20,
        "engine": "harness+vgen",
        "technique": "self-differential runtime monitor across option variants compiled from the same grammar text (seven option sets), known optimizer-off divergence recognised by interpreting the raw AST; token-stream comparison across separate generator processes",
        "design_ref": "6/C20",
        "level_text": "The same grammars are compiled under box_only_if_needed, emit_rule_reference=false, emit_tagged_node_reference, do_not_emit_span, no_warnings, all-on and pest_optimizer=false; for every case verdict, offset and token tree of the prefix parse and the verdict of the full parse must equal the default build's (which C01/C02 tie to pest). Mutually recursive grammars are in the set; a variant module that does not compile is a violation.",
        "level_note": "translation_validation: programs = grammar x option-set modules compiled",
        "level": "translation_validation",
        "required": {"variant_runs": 100000, "variant_noopt": 10000, "variant_boxifneeded": 10000, "token_streams_compared": 200, "generator_processes": 3},
        "assumptions": TRUST_HARNESS,
    },
    "C12": {
        "run": run_textmon,
        "engine": "textmon",
        "technique": "runtime differential monitor (reference model = pest::Position), small-scope exhaustive enumeration + random long texts",
        "design_ref": "6/C12",
        "level_text": "Every string of length <= 7 (thorough: 8) over {LF, CR, 1-, 2-, 3-, 4-byte char} x every byte offset is executed against the real Position API and compared with pest::Position (Some/None, pos, line_col, line_of incl. slice identity), plus seeded 1-4 KiB texts. Exploration: it decides the property for exactly the executions listed, which is the scope the property quantifies over plus longer texts.",
        "level_note": "trusts pest 2.7.14 as reference; x86_64-linux; release profile",
        "level": "exploration",
        "required": {"strings": 300000, "offset_at_end": 1000, "long_texts": 100},
        "assumptions": TRUST_PEST_TEXT,
    },
    "C13": {
        "run": run_textmon,
        "engine": "textmon",
        "technique": "runtime differential monitor (reference model = pest::Span), small-scope exhaustive enumeration",
        "design_ref": "6/C13",
        "level_text": "Every string of length <= 6 (thorough: 7) over {LF, CR, 1-, 2-, 3-byte char}: Span::new on every (start,end) incl. out-of-range, all accessors, lines, lines_span, ==/hash and merge_spans on every ordered pair of valid spans, every sub-range in all six range forms; each result compared with pest::Span on the same arguments, panics observed under catch_unwind.",
        "level_note": "trusts pest 2.7.14 as reference; x86_64-linux; release profile",
        "level": "exploration",
        "required": {"strings": 3000, "merges_succeeded": 1000, "merges_refused": 1000, "lines_yielded": 1000},
        "assumptions": TRUST_PEST_TEXT,
    },
    "C14": {
        "run": run_textmon,
        "engine": "textmon",
        "technique": "runtime monitor with an independent line/cell reference model over parsed renderings; small-scope exhaustive enumeration; recording FormatOption",
        "design_ref": "6/C14",
        "level_text": "Every string of length <= 6 (thorough: 7) over {LF, CR, TAB, ASCII, wide CJK, ambiguous-width 2-byte letter} incl. the empty string x every position and span on char boundaries is rendered with the default and a recording FormatOption under catch_unwind; an independent model judges line numbers, line text, first/last line and marker cells. Seeded 6-13 line inputs cover elision and two-digit numbers.",
        "level_note": "assumes the `<number> | <text>` layout and unicode-width's width_cjk; one known finding (line-start attribution) is recognised by an emulation switch of the model, see known_findings.json",
        "level": "exploration",
        "required": {"strings": 9000, "many_line_inputs": 40, "positions_at_end": 1000, "empty_spans": 1000,
                     "nonempty_spans": 1000, "rendered_custom": 1000},
        "assumptions": [
            "the rendering keeps the `<number> | <text>` / `| <markers>` layout; a layout change makes the run INCONCLUSIVE ('unparseable_layout') rather than guess or alarm",
            "cell widths follow unicode-width's width_cjk (the convention the library itself uses)",
            "FormatOption is reached through the verif-hooks re-export (it is not nameable from outside the crate otherwise)",
        ],
    },
}
