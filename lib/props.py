"""Registry of checks and the shared verdict / evidence logic."""
import json
import os
import subprocess
import time

ENGINES_DIR = "engines"


class Inconclusive(Exception):
    pass


class Ctx:
    def __init__(self, root, pid, tier, seed, replay):
        self.root = root
        self.pid = pid
        self.tier = tier
        self.seed = seed
        self.replay = replay
        self.scratch = os.path.join(root, "target", "run")
        os.makedirs(self.scratch, exist_ok=True)
        os.makedirs(os.path.join(root, "evidence"), exist_ok=True)
        os.makedirs(os.path.join(root, "replays"), exist_ok=True)
        self.env = dict(os.environ)
        self.env["CARGO_NET_OFFLINE"] = "true"
        self.env["CARGO_TARGET_DIR"] = os.path.join(root, "target")
        self.env.setdefault("RUST_BACKTRACE", "0")
        self.env["RUST_BACKTRACE"] = "0"
        self.log = []

    def note(self, msg):
        self.log.append(msg)
        print("[check %s] %s" % (self.pid, msg), flush=True)

    # ------------------------------------------------------------------ building
    def cargo(self, args, cwd, what, timeout=3600, env=None, toolchain=None):
        cmd = ["cargo"] + ([toolchain] if toolchain else []) + args
        t0 = time.time()
        p = subprocess.run(
            cmd,
            cwd=os.path.join(self.root, cwd),
            env=env or self.env,
            stdout=subprocess.PIPE,
            stderr=subprocess.STDOUT,
            text=True,
            timeout=timeout,
        )
        self.note("%s: %s (%.1fs, exit %d)" % (what, " ".join(cmd), time.time() - t0, p.returncode))
        return p

    def build(self, package, profile="release", cwd=ENGINES_DIR, extra=None):
        args = ["build", "--offline", "-p", package]
        if profile == "release":
            args.append("--release")
        args += extra or []
        p = self.cargo(args, cwd, "build " + package)
        if p.returncode != 0:
            tail = "\n".join(p.stdout.splitlines()[-40:])
            raise Inconclusive("build of %s failed (the engines must compile against /repo):\n%s" % (package, tail))
        return os.path.join(self.root, "target", "release" if profile == "release" else "debug", package)

    # ------------------------------------------------------------------ running
    def run_engine(self, binary, args, name, timeout=7200, env=None, ok_codes=(0,)):
        out = os.path.join(self.scratch, "%s-%s.json" % (self.pid, name))
        if os.path.exists(out):
            os.remove(out)
        cmd = [binary] + args + ["--tier", self.tier, "--seed", str(self.seed), "--out", out]
        t0 = time.time()
        p = subprocess.run(cmd, cwd=self.root, env=env or self.env, stdout=subprocess.PIPE, stderr=subprocess.STDOUT, text=True, timeout=timeout)
        self.note("run %s (%.1fs, exit %d)" % (" ".join(cmd[1:-2]), time.time() - t0, p.returncode))
        if p.returncode not in ok_codes or not os.path.exists(out):
            tail = "\n".join(p.stdout.splitlines()[-30:])
            raise Inconclusive("engine %s exited with %d without a result document:\n%s" % (name, p.returncode, tail))
        with open(out) as f:
            return json.load(f)


def load_known(root):
    path = os.path.join(root, "known_findings.json")
    if not os.path.exists(path):
        return []
    with open(path) as f:
        return json.load(f).get("findings", [])


def merge_results(docs):
    """Merge several engine result documents into one."""
    out = {"evaluations": 0, "distinct_nontrivial": 0, "counters": {}, "samples": [], "violations": [],
           "violation_counts": {}, "inconclusive": [], "notes": []}
    for d in docs:
        out["evaluations"] += d.get("evaluations", 0)
        out["distinct_nontrivial"] += d.get("distinct_nontrivial", 0)
        for k, v in d.get("counters", {}).items():
            out["counters"][k] = out["counters"].get(k, 0) + v
        out["samples"] += d.get("samples", [])
        out["violations"] += d.get("violations", [])
        for k, v in d.get("violation_counts", {}).items():
            out["violation_counts"][k] = out["violation_counts"].get(k, 0) + v
        out["inconclusive"] += d.get("inconclusive", [])
        out["notes"] += d.get("notes", [])
        for k, v in d.items():
            if k not in out:
                out[k] = v
    return out


def conclude(ctx, result, wall):
    """Apply the known-findings file, write evidence, print the verdict lines."""
    pid = ctx.pid
    meta = PROPS[pid]
    known = [k for k in load_known(ctx.root) if k.get("property") == pid and k.get("status") == "finding"]
    known_sigs = {k["signature"]: k for k in known}
    counts = result.get("violation_counts", {})
    new = []
    reobserved = {}
    first_witness = {}
    for v in result.get("violations", []):
        first_witness.setdefault(v["signature"], v)
    for sig, n in sorted(counts.items()):
        if sig in known_sigs:
            reobserved[sig] = n
        else:
            new.append((sig, n))
    replay_paths = []
    for sig, n in new:
        w = first_witness.get(sig, {"signature": sig, "what": "(witness not retained)", "witness": None})
        safe = "".join(c if c.isalnum() else "_" for c in sig)[:80]
        path = os.path.join(ctx.root, "replays", "%s-%s-seed%d.json" % (pid, safe, ctx.seed))
        with open(path, "w") as f:
            json.dump({"property": pid, "signature": sig, "count": n, "what": w["what"], "witness": w["witness"],
                       "tier": ctx.tier, "seed": ctx.seed, "engine_args": result.get("engine_args")}, f, indent=1, ensure_ascii=False)
        replay_paths.append((sig, path, w["what"]))
    inconclusive = list(result.get("inconclusive", []))
    # required observations: a run that did not see what it claims to watch is not a pass
    for key, minimum in meta.get("required", {}).items():
        got = result.get("counters", {}).get(key, 0)
        if got < minimum:
            inconclusive.append("required observation %s: saw %d, need >= %d" % (key, got, minimum))
    if result.get("distinct_nontrivial", 0) < 2 and not ctx.replay:
        inconclusive.append("fewer than 2 distinct non-trivial cases were explored")

    if not ctx.replay:
        coverage = {
            "evaluations": int(result.get("evaluations", 0)),
            "distinct_nontrivial": int(result.get("distinct_nontrivial", 0)),
            "rule": result.get("rule", meta.get("rule", "")),
            "samples": result.get("samples", [])[:12] or [{"note": "no sample retained"}],
            "observed": result.get("counters", {}),
            "known_findings_reobserved": reobserved,
            "unlisted_violation_signatures": {s: n for s, n in new},
            "inconclusive": inconclusive,
            "notes": result.get("notes", [])[:20],
        }
        for k in ("exhaustive", "scope", "programs", "disagreements_checked", "builds", "sanitizers", "explanation"):
            if k in result:
                coverage[k] = result[k]
        evidence = {
            "property_id": pid,
            "tier": ctx.tier,
            "seed": ctx.seed,
            "level": meta["level"],
            "coverage": coverage,
            "assumptions": meta.get("assumptions", []),
            "wall_s": round(wall, 2),
            "violations": sum(n for _, n in new),
        }
        with open(os.path.join(ctx.root, "evidence", pid + ".json"), "w") as f:
            json.dump(evidence, f, indent=1, ensure_ascii=False)

    for sig, n in sorted(reobserved.items()):
        print("KNOWN-FINDING: property=%s %s (%d cases; signature %s)" % (pid, known_sigs[sig]["what"], n, sig))
    if new:
        for sig, path, what in replay_paths:
            print("VIOLATION property=%s replay=%s" % (pid, path))
            print("  signature: %s\n  what: %s" % (sig, what))
        return 1
    if inconclusive:
        print("INCONCLUSIVE property=%s reason=%s" % (pid, "; ".join(inconclusive)[:2000]))
        return 2
    print("OK property=%s tier=%s seed=%d evaluations=%d distinct_nontrivial=%d wall=%.1fs" % (
        pid, ctx.tier, ctx.seed, result.get("evaluations", 0), result.get("distinct_nontrivial", 0), wall))
    return 0


# ---------------------------------------------------------------------------------------------
# engines
# ---------------------------------------------------------------------------------------------

def run_textmon(ctx):
    binary = ctx.build("textmon")
    args = ["--prop", ctx.pid]
    if ctx.replay:
        args += ["--replay", ctx.replay]
    doc = ctx.run_engine(binary, args, "textmon")
    doc["engine_args"] = args
    return doc


TRUST_PEST_TEXT = [
    "pest 2.7.14's Position/Span are the reference (the only pest version available offline, inside the repository's version bound)",
    "only x86_64-linux, release profile of the engine (the checked functions contain no cfg(debug_assertions) branches)",
]

HOOK_COMMITS = ["fea8122"]
NOT_APPLICABLE = {}
ENGINES = [
    {"name": "textmon", "path": "engines/textmon", "serves_properties": ["C12", "C13", "C14"],
     "kind_free_text": "exhaustive small-scope differential monitor: pest_typed Position/Span/formatter vs pest::Position/pest::Span and an independent line/cell model"},
]

PROPS = {
    "C12": {
        "run": run_textmon,
        "engine": "textmon",
        "technique": "runtime differential monitor (reference model = pest::Position), small-scope exhaustive enumeration + random long texts",
        "design_ref": "6/C12",
        "level_text": "Every string of length <= 7 (thorough: 8) over {LF, CR, 1-, 2-, 3-, 4-byte char} x every byte offset is executed against the real Position API and compared with pest::Position (Some/None, pos, line_col, line_of incl. slice identity), plus seeded 1-4 KiB texts. Exploration: it decides the property for exactly the executions listed, which is the scope the property quantifies over plus longer texts.",
        "level_note": "trusts pest 2.7.14 as reference; x86_64-linux; release profile",
        "level": "exploration",
        "required": {"strings": 300000, "offset_at_end": 1000, "long_texts": 100},
        "assumptions": TRUST_PEST_TEXT,
    },
    "C13": {
        "run": run_textmon,
        "engine": "textmon",
        "technique": "runtime differential monitor (reference model = pest::Span), small-scope exhaustive enumeration",
        "design_ref": "6/C13",
        "level_text": "Every string of length <= 6 (thorough: 7) over {LF, CR, 1-, 2-, 3-byte char}: Span::new on every (start,end) incl. out-of-range, all accessors, lines, lines_span, ==/hash and merge_spans on every ordered pair of valid spans, every sub-range in all six range forms; each result compared with pest::Span on the same arguments, panics observed under catch_unwind.",
        "level_note": "trusts pest 2.7.14 as reference; x86_64-linux; release profile",
        "level": "exploration",
        "required": {"strings": 3000, "merges_succeeded": 1000, "merges_refused": 1000, "lines_yielded": 1000},
        "assumptions": TRUST_PEST_TEXT,
    },
    "C14": {
        "run": run_textmon,
        "engine": "textmon",
        "technique": "runtime monitor with an independent line/cell reference model over parsed renderings; small-scope exhaustive enumeration; recording FormatOption",
        "design_ref": "6/C14",
        "level_text": "Every string of length <= 6 (thorough: 7) over {LF, CR, TAB, ASCII, wide CJK, ambiguous-width 2-byte letter} incl. the empty string x every position and span on char boundaries is rendered with the default and a recording FormatOption under catch_unwind; an independent model judges line numbers, line text, first/last line and marker cells. Seeded 6-13 line inputs cover elision and two-digit numbers.",
        "level_note": "assumes the `<number> | <text>` layout and unicode-width's width_cjk; one known finding (line-start attribution) is recognised by an emulation switch of the model, see known_findings.json",
        "level": "exploration",
        "required": {"strings": 9000, "many_line_inputs": 40, "positions_at_end": 1000, "empty_spans": 1000,
                     "nonempty_spans": 1000, "rendered_custom": 1000},
        "assumptions": [
            "the rendering keeps the `<number> | <text>` / `| <markers>` layout; a layout change makes the oracle report 'unparseable' rather than guess",
            "cell widths follow unicode-width's width_cjk (the convention the library itself uses)",
            "FormatOption is reached through the verif-hooks re-export (it is not nameable from outside the crate otherwise)",
        ],
    },
}
