#!/usr/bin/env python3
"""Self-validation sweep: hand-made mutants of /repo (the ones planned in DESIGN.md part B under
"M:"), each applied to /repo, filtered by the repository's own suite (a mutant the suite kills
is not interesting), then run against the checks that are supposed to notice.

  lib/mutsweep.py [ids...]        results are appended to /verif/seeded/sweep/results.json

/repo is restored after every mutant (git checkout -- .).
"""
import json
import os
import subprocess
import sys
import time

ROOT = os.path.dirname(os.path.dirname(os.path.abspath(__file__)))
ENV = dict(os.environ, CARGO_NET_OFFLINE="true", RUST_BACKTRACE="0")

# (id, property checks, file, old, new, count)
M = [
    ("m01", ["C01"], "main/src/input.rs", "if range.start <= c && c <= range.end {", "if range.start <= c && c < range.end {", 1),
    ("m02", ["C01", "C17"], "main/src/input.rs", "if prefix.eq_ignore_ascii_case(string) {", "if prefix == string {", 1),
    ("m03", ["C01", "C03"], "main/src/predefined_node/mod.rs",
     '        let (input, t) = if input.match_string("\\r\\n") {\n            (input, NewLineType::CRLF)\n        } else if input.match_string("\\n") {\n            (input, NewLineType::LF)\n        } else if input.match_string("\\r") {\n            (input, NewLineType::CR)',
     '        let (input, t) = if input.match_string("\\r") {\n            (input, NewLineType::CR)\n        } else if input.match_string("\\n") {\n            (input, NewLineType::LF)\n        } else if input.match_string("\\r\\n") {\n            (input, NewLineType::CRLF)', 1),
    ("m06", ["C02"], "main/src/iterators.rs", "impl_empty!(Positive<T>, T: TypedNode<'i, R>);",
     "impl<'i, R: RuleType, T: TypedNode<'i, R> + Pairs<'i, R>> Pairs<'i, R> for Positive<T> {\n    fn for_self_or_each_child(&self, f: &mut impl FnMut(Token<'i, R>)) {\n        self.content.for_self_or_each_child(f)\n    }\n}", 1),
    ("m08", ["C03"], "main/src/sequence.rs",
     "                        for _ in 0..SKIP {\n                            let next = Skip::check_with(input, stack);\n                            input = next;\n                        }\n",
     "", 1),
    ("m09", ["C03", "C19"], "main/src/predefined_node/repetition.rs", "        if i > 0 {\n            let next = Skip::check_with(input, stack);", "        if i > 1 {\n            let next = Skip::check_with(input, stack);", 1),
    ("m10", ["C03", "C06"], "main/src/predefined_node/mod.rs",
     "        let start = input;\n        let input = T::try_check_partial_with(input, stack, tracker)?;\n        #[cfg(feature = \"verif-hooks\")]\n        crate::verif::stack_op();\n        stack.push(start.span(input));\n        Some(input)",
     "        let start = input;\n        #[cfg(feature = \"verif-hooks\")]\n        crate::verif::stack_op();\n        stack.push(start.span(start));\n        let input = T::try_check_partial_with(input, stack, tracker)?;\n        Some(input)", 1),
    ("m11", ["C04"], "main/src/rule.rs", "    let (input, _) = IGNORED::parse_with(input, stack);\n", "", 1),
    ("m12", ["C04"], "main/src/rule.rs",
     "        None => return None,\n    };\n    let (_, _) = match tracker.record_during_with(\n        input,\n        |tracker| EOI::try_parse_partial_with(input, stack, tracker),\n        rule_eoi,\n    ) {\n        Some((input, res)) => (input, res),\n        None => return None,\n    };\n    Some(res)\n}\n\n/// Check without",
     "        None => return None,\n    };\n    let _ = (input, rule_eoi);\n    Some(res)\n}\n\n/// Check without", 1),
    ("m13", ["C05"], "main/src/predefined_node/mod.rs",
     "                Some((_, content)) => {\n                    stack.restore();\n", "                Some((_, content)) => {\n                    stack.clear_snapshot();\n", 1),
    ("m14", ["C05"], "main/src/choices.rs",
     "                        let res = $crate::predefined_node::restore_on_none(stack, |stack| $V::try_parse_partial_with(input, stack, tracker));",
     "                        let res = $V::try_parse_partial_with(input, stack, tracker);", 1),
    ("m15", ["C05", "C03"], "main/src/typed_node.rs",
     "        match restore_on_none(stack, |stack| {\n            T::try_check_partial_with(input, stack, tracker)\n        }) {",
     "        match (|stack: &mut Stack<Span<'i>>| {\n            T::try_check_partial_with(input, stack, tracker)\n        })(stack) {", 1),
    ("m16", ["C06", "C01"], "main/src/parser_state.rs", "    if i > len as i32 {", "    if i >= len as i32 {", 1),
    ("m17", ["C06", "C09"], "main/src/predefined_node/mod.rs",
     "        match stack.pop() {\n            Some(_) => Some((input, Self)),\n            None => {\n                tracker.empty_stack(input);\n                None\n            }\n        }",
     "        match stack.pop() {\n            Some(_) => Some((input, Self)),\n            None => {\n                tracker.empty_stack(input);\n                Some((input, Self))\n            }\n        }", 1),
    ("m18", ["C06", "C03", "C05"], "main/src/predefined_node/mod.rs",
     "        let input = PEEK_ALL::try_check_partial_with(input, stack, tracker)?;\n        #[cfg(feature = \"verif-hooks\")]\n        crate::verif::stack_op();\n        while stack.pop().is_some() {}\n",
     "        let input = PEEK_ALL::try_check_partial_with(input, stack, tracker)?;\n", 1),
    ("m21", ["C08"], "main/src/input.rs",
     "    unsafe fn cursor(&mut self) -> &mut usize {\n        &mut self.cursor\n    }\n\n    fn start(&self) -> usize {\n        self.start\n    }\n    fn end(&self) -> usize {\n        self.input.len()\n    }",
     "    unsafe fn cursor(&mut self) -> &mut usize {\n        &mut self.cursor\n    }\n\n    fn start(&self) -> usize {\n        0\n    }\n    fn end(&self) -> usize {\n        self.input.len()\n    }", 1),
    ("m22", ["C08"], "main/src/input.rs", "        self.byte_offset() == self.end()\n", "        self.byte_offset() == self.input().len()\n", 1),
    ("m23", ["C09"], "main/src/input.rs",
     "        if let Some(prefix) = self.get().get(..len) {\n            if prefix.eq_ignore_ascii_case(string) {",
     "        if self.get().len() >= len {\n            let prefix = &self.get().as_bytes()[..len];\n            if prefix.eq_ignore_ascii_case(string.as_bytes()) {", 1),
    ("m24", ["C09", "C19"], "main/src/input.rs",
     "                if let Some(c) = chars.next() {\n                    len += c.len_utf8();",
     "                if let Some(_c) = chars.next() {\n                    len += 1;", 1),
    ("m25", ["C10"], "main/src/tracker.rs", "if self.prepare(pos) && succeeded != self.positive {", "if self.prepare(pos) && succeeded == self.positive {", 1),
    ("m26", ["C10"], "main/src/tracker.rs", "            Ordering::Greater => {\n                self.clear();\n", "            Ordering::Greater => {\n", 1),
    ("m32", ["C14"], "main/src/formatter.rs", "\" \".repeat(UnicodeWidthStr::width_cjk(end.former.as_str()).saturating_sub(1))", "\" \".repeat(UnicodeWidthStr::width_cjk(end.former.as_str()))", 1),
    ("m33", ["C15"], "main/src/iterators.rs", "            next.extend(p.children);", "            for c in p.children.into_iter().rev() {\n                next.push_front(c);\n            }", 1),
    ("m34", ["C15"], "main/src/iterators.rs", "                f(&first, stack.len() - 1)?;", "                f(&first, stack.len())?;", 1),
    ("m36", ["C17"], "main/src/choices.rs", "                    Self::$v0(c) => $v1::Res(f(c)),\n                    Self::$v1(c) => $v1::$v1(c),", "                    Self::$v0(c) => $v1::Res(f(c)),\n                    Self::$v1(c) => $v1::$v1(c),\n                    #[allow(unreachable_patterns)]\n                    Self::$v1(c) => $v1::$v1(c),", 1),
    ("m37", ["C17"], "main/src/predefined_node/mod.rs", "            Some((input, Self::from(span.as_str())))", "            let _ = span;\n            Some((input, Self::from(Self::CONTENT)))", 1),
    ("m38", ["C18"], "main/src/sequence.rs",
     "                self.content.$t0 == other.content.$t0\n                $(\n                    && self.content.$t == other.content.$t\n                )*",
     "                self.content.$t0 == other.content.$t0", 1),
    ("m39", ["C18"], "main/src/span.rs", None, None, 0),
    ("m40", ["C19"], "main/src/predefined_node/repetition.rs", "                    if i < MIN {", "                    if i + 1 < MIN {", 4),
    ("m41", ["C20"], "generator/src/graph/optimized_rule.rs", "            let boxed = !config.box_only_if_needed || !not_boxed.contains(rule_name);", "            let boxed = !config.box_only_if_needed;", 1),
    ("m42", ["C16"], "generator/src/graph.rs", "        self.prepend(Edge::ContentI(i))", "        self.prepend(Edge::ContentI(if i > 2 { i - 1 } else { i }))", 1),
    ("m43", ["C16", "C20"], "generator/src/graph.rs",
     "            Node::Tuple(vec) => match other {\n                Node::Tuple(mut v) => {\n                    let mut vec = vec;\n                    vec.append(&mut v);\n                    Node::Tuple(vec)\n                }",
     "            Node::Tuple(vec) => match other {\n                Node::Tuple(mut v) => {\n                    let mut vec = vec;\n                    v.append(&mut vec);\n                    Node::Tuple(v)\n                }", 1),
    ("m44", ["C13"], "main/src/span.rs", None, None, 0),
    ("m45", ["C12"], "main/src/position.rs", None, None, 0),
    ("m46", ["C07", "C01"], "main/src/predefined_node/repetition.rs",
     "    let skipped = core::array::from_fn(|_| {\n        if i == 0 {\n            Skip::default()",
     "    let skipped = core::array::from_fn(|_| {\n        if i == usize::MAX {\n            Skip::default()", 1),
    ("m47", ["C11"], "main/src/predefined_node/repetition.rs", None, None, 0),
    ("m48", ["C02", "C15"], "main/src/rule.rs",
     "                $crate::iterators::Pairs::<'i, $Rule>::for_self_or_each_child(\n                    &self.content,\n                    &mut f,\n                );",
     "                let mut n = 0usize;\n                $crate::iterators::Pairs::<'i, $Rule>::for_self_or_each_child(\n                    &self.content,\n                    &mut |t| {\n                        n += 1;\n                        if n <= 8 {\n                            f(t)\n                        }\n                    },\n                );", 1),
    ("m49", ["C04", "C03"], "main/src/rule.rs",
     "    let input = IGNORED::check_with(input, stack);\n", "", 1),
    ("m50", ["C09", "C01"], "main/src/input.rs", "            unsafe { *self.cursor() += string.len() };\n        }\n        res\n    }\n    /// Match an string insensitively.", "            unsafe { *self.cursor() += string.chars().count() };\n        }\n        res\n    }\n    /// Match an string insensitively.", 1),
]


def sh(cmd, cwd, timeout=7200):
    p = subprocess.run(cmd, cwd=cwd, shell=True, env=ENV, stdout=subprocess.PIPE, stderr=subprocess.STDOUT, text=True, timeout=timeout)
    return p.returncode, p.stdout


def main():
    want = set(sys.argv[1:])
    os.makedirs(os.path.join(ROOT, "seeded", "sweep"), exist_ok=True)
    res_path = os.path.join(ROOT, "seeded", "sweep", "results.json")
    results = json.load(open(res_path)) if os.path.exists(res_path) else {}
    rc, out = sh("git status --porcelain", "/repo")
    assert out.strip() == "", "/repo is not clean"
    for mid, checks, path, old, new, count in M:
        if old is None or (want and mid not in want) or (not want and mid in results):
            continue
        full = os.path.join("/repo", path)
        text = open(full).read()
        if text.count(old) != count:
            print(mid, "SKIP: pattern occurs %d times in %s" % (text.count(old), path))
            results[mid] = {"status": "pattern-not-found", "file": path}
            continue
        open(full, "w").write(text.replace(old, new))
        entry = {"file": path, "checks": {}, "old": old[:200], "new": new[:200]}
        try:
            t0 = time.time()
            rc, out = sh("cargo test --workspace --no-fail-fast --offline", "/repo")
            entry["suite_exit"] = rc
            entry["suite_s"] = round(time.time() - t0)
            if rc != 0:
                failed = [l for l in out.splitlines() if l.startswith("test ") and "FAILED" in l][:5]
                errs = [l for l in out.splitlines() if l.startswith("error")][:3]
                entry["status"] = "killed-by-suite"
                entry["suite_failures"] = failed or errs
                print(mid, "killed by the repository's own suite:", (failed or errs)[:2])
            else:
                entry["status"] = "survives-suite"
                for c in checks:
                    t0 = time.time()
                    rc, out = sh("./check %s --tier quick" % c, ROOT, timeout=3 * 3600)
                    verdict = "caught" if rc == 1 else ("silent" if rc == 0 else "inconclusive")
                    lines = [l[:300] for l in out.splitlines() if l.startswith(("VIOLATION", "INCONCLUSIVE", "  signature", "  what"))][:6]
                    entry["checks"][c] = {"verdict": verdict, "wall_s": round(time.time() - t0), "lines": lines}
                    print(mid, c, verdict, lines[1:3] if verdict == "caught" else lines[:1])
        finally:
            rc, out = sh("git checkout -- . && git status --porcelain", "/repo")
            assert out.strip() == "", "/repo not restored"
        results[mid] = entry
        with open(res_path, "w") as f:
            json.dump(results, f, indent=1)


if __name__ == "__main__":
    main()
