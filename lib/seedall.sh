#!/bin/bash
# Re-run every stored seeded change against the check of the property it breaks (quick tier).
cd "$(dirname "$0")/.."
for d in seeded/S-*; do
  id=$(basename $d)
  prop=$(python3 -c "import json;print(json.load(open('$d/meta.json'))['breaks_property'])")
  python3 lib/seedtest.py run $id $prop 2>&1 | grep -v "^    "
done
