#!/usr/bin/env python3
"""Confirm a seeded change produced in a scratch worktree and run checks against it.

  lib/seedtest.py confirm <worktree> <seed-id> <property>     verify + store under /verif/seeded/<seed-id>/
  lib/seedtest.py run <seed-id> <check-id> [<check-id> ...]    apply to /repo, run the checks, undo

`confirm` re-does what the author of the change claims, inside the scratch worktree:
  the demonstration fails with the change, passes without it, and the repository's own suite
  passes with the change (demonstration moved aside).
"""
import glob
import json
import os
import shutil
import subprocess
import sys
import time

ROOT = os.path.dirname(os.path.dirname(os.path.abspath(__file__)))
ENV = dict(os.environ, CARGO_NET_OFFLINE="true", RUST_BACKTRACE="0")


def sh(cmd, cwd, timeout=3600):
    p = subprocess.run(cmd, cwd=cwd, shell=True, env=ENV, stdout=subprocess.PIPE, stderr=subprocess.STDOUT, text=True, timeout=timeout)
    return p.returncode, p.stdout


def confirm(wt, sid, prop, demo_flags=""):
    patch = os.path.join(wt, "mutant.diff")
    demos = glob.glob(os.path.join(wt, "derive/tests/zz_demo_*.rs")) + glob.glob(os.path.join(wt, "main/tests/zz_demo_*.rs")) + glob.glob(os.path.join(wt, "generator/tests/zz_demo_*.rs"))
    assert os.path.exists(patch), "no mutant.diff"
    assert demos, "no demonstration file"
    demo = demos[0]
    crate = {"derive": "pest_typed_derive", "main": "pest_typed", "generator": "pest_typed_generator"}[os.path.relpath(demo, wt).split("/")[0]]
    test = os.path.splitext(os.path.basename(demo))[0]
    log = {}
    # the worktree is expected to have the change applied
    rc, out = sh("git apply --check -R mutant.diff", wt)
    if rc != 0:
        rc2, out2 = sh("git apply mutant.diff", wt)
        assert rc2 == 0, "mutant.diff neither applied nor applicable:\n" + out + out2
    cmd = "cargo test %s -p %s --test %s --offline" % (demo_flags, crate, test)
    rc, out = sh(cmd, wt)
    log["demo_with_change"] = {"cmd": cmd, "exit": rc, "tail": out[-600:]}
    assert rc != 0, "demonstration passes WITH the change"
    assert "test result: FAILED" in out or "panicked" in out or "error[E" in out, "demonstration did not fail by assertion or compile error:\n" + out[-800:]
    rc, out = sh("git apply -R mutant.diff", wt)
    assert rc == 0, out
    try:
        rc, out = sh(cmd, wt)
        log["demo_without_change"] = {"cmd": cmd, "exit": rc, "tail": out[-300:]}
        assert rc == 0, "demonstration fails WITHOUT the change:\n" + out[-800:]
    finally:
        rc2, out2 = sh("git apply mutant.diff", wt)
        assert rc2 == 0, out2
    aside = demo + ".aside"
    os.rename(demo, aside)
    try:
        cmd = "cargo test --workspace --no-fail-fast --offline"
        rc, out = sh(cmd, wt, timeout=7200)
        results = [l for l in out.splitlines() if l.startswith("test result:")]
        log["suite_with_change"] = {"cmd": cmd, "exit": rc, "results": len(results), "failed_lines": [l for l in results if " 0 failed" not in l][:5]}
        assert rc == 0, "the repository's suite FAILS with the change:\n" + "\n".join(l for l in out.splitlines() if "FAILED" in l or "failed" in l)[:1500]
    finally:
        os.rename(aside, demo)
    dest = os.path.join(ROOT, "seeded", sid)
    os.makedirs(dest, exist_ok=True)
    shutil.copy(patch, os.path.join(dest, "patch.diff"))
    shutil.copy(demo, os.path.join(dest, os.path.basename(demo)))
    note = ""
    if os.path.exists(os.path.join(wt, "mutant_note.md")):
        note = open(os.path.join(wt, "mutant_note.md")).read()
        shutil.copy(os.path.join(wt, "mutant_note.md"), os.path.join(dest, "note.md"))
    rc, head = sh("git rev-parse HEAD", wt)
    meta = {"id": sid, "breaks_property": prop, "base_commit": head.strip(), "demonstration": os.path.relpath(demo, wt),
            "needs_to_manifest": note[:1500], "confirmed": log, "confirmed_at": time.strftime("%Y-%m-%d %H:%M:%S"), "checks": {}}
    with open(os.path.join(dest, "meta.json"), "w") as f:
        json.dump(meta, f, indent=1)
    print("confirmed and stored:", dest)


def run(sid, checks, tier="quick"):
    dest = os.path.join(ROOT, "seeded", sid)
    meta_path = os.path.join(dest, "meta.json")
    meta = json.load(open(meta_path))
    rc, out = sh("git status --porcelain", "/repo")
    assert out.strip() == "", "/repo is not clean:\n" + out
    rc, out = sh("git apply %s" % os.path.join(dest, "patch.diff"), "/repo")
    assert rc == 0, "patch does not apply to /repo:\n" + out
    try:
        for c in checks:
            t0 = time.time()
            rc, out = sh("./check %s --tier %s" % (c, tier), ROOT, timeout=3 * 3600)
            lines = [l for l in out.splitlines() if l.startswith(("VIOLATION", "INCONCLUSIVE", "OK ", "KNOWN-FINDING", "  signature", "  what"))]
            verdict = "caught" if rc == 1 else ("silent" if rc == 0 else "inconclusive")
            meta["checks"]["%s/%s" % (c, tier)] = {"exit": rc, "verdict": verdict, "wall_s": round(time.time() - t0, 1), "lines": [l[:400] for l in lines if not l.startswith("KNOWN")][:12]}
            print("%s %s -> exit %d (%s) in %.0fs" % (sid, c, rc, verdict, time.time() - t0))
            for l in lines:
                if not l.startswith("KNOWN"):
                    print("   ", l[:300])
    finally:
        rc, out = sh("git checkout -- . && git status --porcelain", "/repo")
        assert out.strip() == "", "/repo not restored:\n" + out
    with open(meta_path, "w") as f:
        json.dump(meta, f, indent=1)


if __name__ == "__main__":
    if sys.argv[1] == "confirm":
        confirm(sys.argv[2], sys.argv[3], sys.argv[4], " ".join(sys.argv[5:]))
    elif sys.argv[1] == "run":
        tier = "quick"
        args = sys.argv[3:]
        if "--thorough" in args:
            tier = "thorough"
            args.remove("--thorough")
        run(sys.argv[2], args, tier)
