//! Compile probe for a known finding of C11: a grammar that uses the Unicode script property
//! `INHERITED` (accepted by pest) makes the generated code refer to a *type* named INHERITED
//! where the const generic parameter `INHERITED` is meant, and does not compile.
#![allow(dead_code, non_snake_case, non_camel_case_types)]
use pest_typed_derive::TypedParser;

#[derive(TypedParser)]
#[grammar_inline = "mark = { INHERITED+ }\nword = { (ASCII_ALPHA ~ INHERITED*)+ }"]
struct Parser;

fn main() {
    use pest_typed::ParsableTypedNode;
    let ok = pairs::word::try_parse("a\u{300}b").is_ok();
    println!("probe compiled; parse ok = {}", ok);
}
