//! textmon: exhaustive small-scope monitors for Position (C12), Span (C13) and the
//! formatter (C14). Oracles: pest::Position / pest::Span (C12, C13) and an independent
//! line/cell model (C14).

mod c12;
mod c13;
mod c14;

use serde_json::json;
use vutil::{Args, Collector};

static MAX_LEN: std::sync::OnceLock<Option<usize>> = std::sync::OnceLock::new();

/// `--max-len N` shrinks the enumeration (used for the Miri pass).
pub fn max_len_override() -> Option<usize> {
    *MAX_LEN.get().unwrap_or(&None)
}

fn main() {
    let args = Args::parse();
    let _ = MAX_LEN.set(args.get("max-len").and_then(|s| s.parse().ok()));
    vutil::quiet_panics();
    let prop = args.str("prop", "C12");
    let seed = args.u64("seed", 1);
    let thorough = args.thorough();
    let jobs = vutil::jobs(&args);
    let col = Collector::new();
    let t0 = std::time::Instant::now();
    if let Some(path) = args.get("replay") {
        let doc: serde_json::Value = serde_json::from_str(&std::fs::read_to_string(path).expect("read replay file")).expect("replay file is JSON");
        let w = &doc["witness"];
        let input = w["input"].as_str().expect("witness.input").to_string();
        let mut l = vutil::Local::new();
        match prop.as_str() {
            "C12" => c12::replay(&mut l, &input, w["offset"].as_u64().unwrap_or(0) as usize),
            "C13" => c13::replay(&mut l, &input),
            "C14" => c14::replay(&mut l, &input, w),
            _ => panic!("unknown --prop"),
        }
        l.nontrivial = l.nontrivial.max(2);
        col.add(l);
        let doc = col.finish(json!({"replayed": path}));
        println!("{}", serde_json::to_string_pretty(&doc["violations"]).unwrap());
        vutil::write_out(&args, &doc);
        return;
    }
    let extra = match prop.as_str() {
        "C12" => c12::run(&col, thorough, seed, jobs),
        "C13" => c13::run(&col, thorough, seed, jobs),
        "C14" => c14::run(&col, thorough, seed, jobs),
        _ => panic!("unknown --prop"),
    };
    let mut doc = col.finish(extra);
    doc["engine_wall_s"] = json!(t0.elapsed().as_secs_f64());
    doc["debug_assertions"] = json!(cfg!(debug_assertions));
    vutil::write_out(&args, &doc);
}
