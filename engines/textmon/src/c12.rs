//! C12: Position::{new, line_col, line_of} agree with pest::Position.

use serde_json::{json, Value};
use vutil::{Collector, Local, Rng};

pub const ALPHABET: [&str; 6] = ["\n", "\r", "a", "é", "€", "😀"];

fn check_one(l: &mut Local, s: &str, o: usize, class: &str) {
    l.evaluations += 1;
    let t = std::panic::catch_unwind(|| pest_typed::Position::new(s, o));
    let p = pest::Position::new(s, o);
    let t = match t {
        Ok(t) => t,
        Err(e) => {
            l.violation(
                "unclassified/C12/new/panic",
                format!("Position::new panicked: {}", vutil::panic_text(&*e)),
                json!({"input": s, "offset": o, "class": class}),
            );
            return;
        }
    };
    if t.is_some() != p.is_some() {
        l.violation(
            "unclassified/C12/new/some-none",
            format!("Position::new is_some={} pest is_some={}", t.is_some(), p.is_some()),
            json!({"input": s, "offset": o, "class": class}),
        );
        return;
    }
    let (t, p) = match (t, p) {
        (Some(t), Some(p)) => (t, p),
        _ => {
            l.count("offsets_rejected_by_both");
            return;
        }
    };
    if !s.is_empty() {
        l.nontrivial += 1;
    }
    if o == s.len() {
        l.count("offset_at_end");
    }
    if t.pos() != p.pos() {
        l.violation(
            "unclassified/C12/pos",
            "pos() differs",
            json!({"input": s, "offset": o, "typed": t.pos(), "pest": p.pos()}),
        );
    }
    let tl = std::panic::catch_unwind(|| t.line_col());
    let pl = p.line_col();
    match tl {
        Ok(tl) if tl == pl => {}
        Ok(tl) => l.violation(
            "unclassified/C12/line_col",
            format!("line_col {:?} vs pest {:?}", tl, pl),
            json!({"input": s, "offset": o, "typed": [tl.0, tl.1], "pest": [pl.0, pl.1], "class": class}),
        ),
        Err(e) => l.violation(
            "unclassified/C12/line_col/panic",
            format!("line_col panicked: {}", vutil::panic_text(&*e)),
            json!({"input": s, "offset": o, "class": class}),
        ),
    }
    let to = std::panic::catch_unwind(|| t.line_of());
    let po = p.line_of();
    match to {
        Ok(to) if to == po => {
            // the line must also be the same slice of the input, not just equal text
            if to.as_ptr() != po.as_ptr() {
                l.violation(
                    "unclassified/C12/line_of/slice",
                    "line_of returns equal text from a different place",
                    json!({"input": s, "offset": o, "class": class}),
                );
            }
        }
        Ok(to) => l.violation(
            "unclassified/C12/line_of",
            format!("line_of {:?} vs pest {:?}", to, po),
            json!({"input": s, "offset": o, "typed": to, "pest": po, "class": class}),
        ),
        Err(e) => l.violation(
            "unclassified/C12/line_of/panic",
            format!("line_of panicked: {}", vutil::panic_text(&*e)),
            json!({"input": s, "offset": o, "class": class}),
        ),
    }
}

pub fn run(col: &Collector, thorough: bool, seed: u64, jobs: usize) -> Value {
    let max_len = crate::max_len_override().unwrap_or(if thorough { 8 } else { 7 });
    let k = ALPHABET.len();
    vutil::run_workers(jobs, col, |w, n| {
        let mut l = Local::new();
        let mut s = String::new();
        for len in 0..=max_len {
            let total = vutil::pow(k, len);
            let mut idx = w as u64;
            while idx < total {
                vutil::nth_string(&ALPHABET, len, idx, &mut s);
                // one past the end as well: both must refuse it
                for o in 0..=s.len() + 1 {
                    check_one(&mut l, &s, o, "exhaustive");
                }
                l.count("strings");
                if idx % 50021 == 7 {
                    l.sample(json!({"input": s, "offsets": format!("0..={}", s.len() + 1)}));
                }
                idx += n as u64;
            }
        }
        // long random texts
        let texts = if crate::max_len_override().is_some() { 2 } else if thorough { 10_000 } else { 400 };
        let mut rng = Rng::new(seed).derive(w as u64 + 100);
        let mut t = w;
        while t < texts {
            let size = 1024 + rng.below(3072);
            let mut s = String::with_capacity(size + 8);
            // line-structure heavy: many CR/LF mixes
            while s.len() < size {
                let r = rng.below(100);
                if r < 12 {
                    s.push('\n');
                } else if r < 20 {
                    s.push('\r');
                } else if r < 24 {
                    s.push_str("\r\n");
                } else {
                    s.push_str(ALPHABET[2 + rng.below(4)]);
                }
            }
            let samples = if thorough { 48 } else { 24 };
            let mut offsets = std::collections::BTreeSet::new();
            offsets.insert(s.len());
            for _ in 0..samples {
                offsets.insert(rng.below(s.len() + 2));
            }
            for o in offsets {
                check_one(&mut l, &s, o, "long-random");
            }
            l.count("long_texts");
            t += n;
        }
        l
    });
    json!({
        "exhaustive": true,
        "scope": format!("all {} strings of length <= {} over {:?} x every byte offset 0..=len+1; plus long random texts", (0..=max_len).map(|n| vutil::pow(k, n)).sum::<u64>(), max_len, ALPHABET),
        "rule": "evaluation = one (string, byte offset) pair compared on Position::new / pos / line_col / line_of against pest::Position; non-trivial = the offset is accepted (a char boundary) and the string is non-empty; every pair is distinct by construction of the enumeration (long random texts add sampled offsets)",
    })
}

pub fn replay(l: &mut Local, input: &str, offset: usize) {
    check_one(l, input, offset, "replay");
}
