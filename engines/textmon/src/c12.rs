//! C12: Position::{new, line_col, line_of} agree with pest::Position.

use serde_json::{json, Value};
use vutil::{Collector, Local, Rng};

pub const ALPHABET: [&str; 6] = ["\n", "\r", "a", "é", "€", "😀"];

fn check_one(l: &mut Local, s: &str, o: usize, class: &str) {
    l.evaluations += 1;
    let t = std::panic::catch_unwind(|| pest_typed::Position::new(s, o));
    let p = pest::Position::new(s, o);
    let t = match t {
        Ok(t) => t,
        Err(e) => {
            l.violation(
                "unclassified/C12/new/panic",
                format!("Position::new panicked: {}", vutil::panic_text(&*e)),
                json!({"input": s, "offset": o, "class": class}),
            );
            return;
        }
    };
    if t.is_some() != p.is_some() {
        l.violation(
            "unclassified/C12/new/some-none",
            format!("Position::new is_some={} pest is_some={}", t.is_some(), p.is_some()),
            json!({"input": s, "offset": o, "class": class}),
        );
        return;
    }
    let (t, p) = match (t, p) {
        (Some(t), Some(p)) => (t, p),
        _ => {
            l.count("offsets_rejected_by_both");
            return;
        }
    };
    if !s.is_empty() {
        l.nontrivial += 1;
    }
    if o == s.len() {
        l.count("offset_at_end");
    }
    if t.pos() != p.pos() {
        l.violation(
            "unclassified/C12/pos",
            "pos() differs",
            json!({"input": s, "offset": o, "typed": t.pos(), "pest": p.pos()}),
        );
    }
    let tl = std::panic::catch_unwind(|| t.line_col());
    let pl = p.line_col();
    match tl {
        Ok(tl) if tl == pl => {}
        Ok(tl) => l.violation(
            "unclassified/C12/line_col",
            format!("line_col {:?} vs pest {:?}", tl, pl),
            json!({"input": s, "offset": o, "typed": [tl.0, tl.1], "pest": [pl.0, pl.1], "class": class}),
        ),
        Err(e) => l.violation(
            "unclassified/C12/line_col/panic",
            format!("line_col panicked: {}", vutil::panic_text(&*e)),
            json!({"input": s, "offset": o, "class": class}),
        ),
    }
    let to = std::panic::catch_unwind(|| t.line_of());
    let po = p.line_of();
    match to {
        Ok(to) if to == po => {
            // the line must also be the same slice of the input, not just equal text
            if to.as_ptr() != po.as_ptr() {
                l.violation(
                    "unclassified/C12/line_of/slice",
                    "line_of returns equal text from a different place",
                    json!({"input": s, "offset": o, "class": class}),
                );
            }
        }
        Ok(to) => l.violation(
            "unclassified/C12/line_of",
            format!("line_of {:?} vs pest {:?}", to, po),
            json!({"input": s, "offset": o, "typed": to, "pest": po, "class": class}),
        ),
        Err(e) => l.violation(
            "unclassified/C12/line_of/panic",
            format!("line_of panicked: {}", vutil::panic_text(&*e)),
            json!({"input": s, "offset": o, "class": class}),
        ),
    }
}

/// Further alphabets for byte-level diversity: the largest and the smallest character of every
/// UTF-8 length class (continuation bytes 0xBF / 0x80) next to the line-break characters.
pub const ALPHABET_MAX: [&str; 6] = ["\n", "\r", "\u{7f}", "\u{7ff}", "\u{ffff}", "\u{10ffff}"];
pub const ALPHABET_MIN: [&str; 6] = ["\n", "\r", "\u{80}", "\u{800}", "\u{10000}", "\u{bf}"];

/// Characters whose code point, truncated to its low byte, is LF or CR (U+010A, U+010D, U+4E0A,
/// U+1F60A): a comparison done on a truncated or partially decoded value mistakes them for line breaks.
pub const ALPHABET_LOW: [&str; 6] = ["\n", "\r", "\u{10a}", "\u{10d}", "\u{4e0a}", "\u{1f60a}"];

pub fn run(col: &Collector, thorough: bool, seed: u64, jobs: usize) -> Value {
    let max_len = crate::max_len_override().unwrap_or(if thorough { 8 } else { 7 });
    let extra_len = crate::max_len_override().unwrap_or(if thorough { 6 } else { 5 });
    let k = ALPHABET.len();
    vutil::run_workers(jobs, col, |w, n| {
        let mut l = Local::new();
        let mut s = String::new();
        for (alphabet, limit, class) in [(&ALPHABET, max_len, "exhaustive"), (&ALPHABET_MAX, extra_len, "exhaustive-max-of-class"), (&ALPHABET_MIN, extra_len, "exhaustive-min-of-class"), (&ALPHABET_LOW, extra_len, "exhaustive-low-byte-is-a-line-break")] {
            for len in 0..=limit {
                let total = vutil::pow(k, len);
                let mut idx = w as u64;
                while idx < total {
                    vutil::nth_string(alphabet, len, idx, &mut s);
                    // one past the end as well: both must refuse it
                    for o in 0..=s.len() + 1 {
                        check_one(&mut l, &s, o, class);
                    }
                    l.count("strings");
                    if idx % 50021 == 7 {
                        l.sample(json!({"input": s, "offsets": format!("0..={}", s.len() + 1), "class": class}));
                    }
                    idx += n as u64;
                }
            }
        }
        // long random texts
        let texts = if crate::max_len_override().is_some() { 2 } else if thorough { 10_000 } else { 400 };
        let mut rng = Rng::new(seed).derive(w as u64 + 100);
        let mut t = w;
        while t < texts {
            let size = 1024 + rng.below(3072);
            let mut s = String::with_capacity(size + 8);
            // line-structure heavy: many CR/LF mixes
            while s.len() < size {
                let r = rng.below(100);
                if r < 12 {
                    s.push('\n');
                } else if r < 20 {
                    s.push('\r');
                } else if r < 24 {
                    s.push_str("\r\n");
                } else if r < 70 {
                    s.push_str(ALPHABET[2 + rng.below(4)]);
                } else {
                    // any scalar value (surrogates are skipped by from_u32)
                    let c = match rng.below(4) {
                        0 => rng.below(0x80) as u32,
                        1 => 0x80 + rng.below(0x780) as u32,
                        2 => 0x800 + rng.below(0xF800) as u32,
                        _ => 0x10000 + rng.below(0x100000) as u32,
                    };
                    if let Some(c) = char::from_u32(c) {
                        if c != '\n' && c != '\r' {
                            s.push(c);
                        }
                    }
                }
            }
            let samples = if thorough { 48 } else { 24 };
            let mut offsets = std::collections::BTreeSet::new();
            offsets.insert(s.len());
            for _ in 0..samples {
                offsets.insert(rng.below(s.len() + 2));
            }
            for o in offsets {
                check_one(&mut l, &s, o, "long-random");
            }
            l.count("long_texts");
            t += n;
        }
        l
    });
    json!({
        "exhaustive": true,
        "scope": format!("all {} strings of length <= {} over {:?} x every byte offset 0..=len+1; plus long random texts", (0..=max_len).map(|n| vutil::pow(k, n)).sum::<u64>(), max_len, ALPHABET),
        "rule": "evaluation = one (string, byte offset) pair compared on Position::new / pos / line_col / line_of against pest::Position; non-trivial = the offset is accepted (a char boundary) and the string is non-empty; every pair is distinct by construction of the enumeration (long random texts add sampled offsets)",
    })
}

pub fn replay(l: &mut Local, input: &str, offset: usize) {
    check_one(l, input, offset, "replay");
}
