//! C14: displaying any Span / Position never panics and marks the right text.
//!
//! The oracle is an independent model: input lines end after LF; the cell of a character is the
//! sum of the CJK display widths of the (control-picture-substituted) characters before it.
//! The rendering is parsed generically (`<number> | <text>` lines and `| <markers>` lines); the
//! model does not mirror the formatter's control flow.

use serde_json::{json, Value};
use unicode_width::UnicodeWidthChar;
use vutil::{Collector, Local, Rng};

pub const ALPHABET: [&str; 6] = ["\n", "\r", "\t", "a", "中", "ß"];
/// Other controls (NUL, ESC, DEL), a narrow 2-byte letter, a 4-byte wide character. Zero-width
/// characters are left out on purpose: they have no display cell, so the statement ("the markers
/// point at the display cells of exactly those characters") says nothing about them.
pub const ALPHABET_EDGE: [&str; 6] = ["\n", "\u{0}", "\u{1b}", "\u{7f}", "é", "😀"];

/// Characters whose code point truncated to a byte is LF / CR (narrow U+010A, wide U+4E0A, U+1F60A).
pub const ALPHABET_LOW: [&str; 6] = ["\n", "\r", "a", "\u{10a}", "\u{4e0a}", "\u{1f60a}"];

#[derive(Clone, Copy, Debug)]
pub enum Subject {
    Span(usize, usize),
    Pos(usize),
}

fn picture(c: char) -> char {
    match c {
        '\u{0}'..='\u{1f}' => char::from_u32(0x2400 + c as u32).unwrap(),
        '\u{7f}' => '\u{2421}',
        _ => c,
    }
}

fn visualize(s: &str) -> String {
    s.chars().map(picture).collect()
}

fn cells(s: &str) -> usize {
    s.chars().map(|c| picture(c).width_cjk().unwrap_or(0)).sum()
}

/// Byte ranges of the input lines (a line ends after LF). The empty input has one empty line.
fn lines_of(input: &str) -> Vec<(usize, usize)> {
    let mut v = Vec::new();
    let mut start = 0;
    for (i, b) in input.bytes().enumerate() {
        if b == b'\n' {
            v.push((start, i + 1));
            start = i + 1;
        }
    }
    if start < input.len() || v.is_empty() {
        v.push((start, input.len()));
    }
    v
}

fn line_index(lines: &[(usize, usize)], off: usize) -> usize {
    // line holding the character that starts at `off`
    lines.iter().position(|(s, e)| *s <= off && off < *e).unwrap_or(lines.len() - 1)
}

#[derive(Debug)]
enum Row {
    Numbered(usize, String),
    Filler(String),
}

fn parse(out: &str) -> Result<Vec<Row>, String> {
    let mut rows = Vec::new();
    let body = out.strip_suffix('\n').ok_or_else(|| "output does not end with a newline".to_string())?;
    for line in body.split('\n') {
        let idx = line.find(" |").ok_or_else(|| format!("no ` |` gutter in {:?}", line))?;
        let prefix = &line[..idx];
        let after = &line[idx + 2..];
        let content = if after.is_empty() {
            ""
        } else if let Some(c) = after.strip_prefix(' ') {
            c
        } else {
            return Err(format!("gutter not followed by a space in {:?}", line));
        };
        let digits = prefix.trim_start_matches(' ');
        if digits.is_empty() {
            rows.push(Row::Filler(content.to_string()));
        } else if digits.bytes().all(|b| b.is_ascii_digit()) {
            rows.push(Row::Numbered(digits.parse().map_err(|_| "bad number".to_string())?, content.to_string()));
        } else {
            return Err(format!("gutter prefix {:?} is neither blank nor a number", prefix));
        }
    }
    Ok(rows)
}

/// Returns (signature suffix, description) for every deviation.
pub fn judge(input: &str, subject: Subject, out: &str) -> Vec<(String, String)> {
    judge_with(input, subject, out, false)
}

/// Whether the known line-start attribution (see known_findings.json) can apply to this subject:
/// a span that starts exactly where a line other than the first one starts.
pub fn starts_at_line_start(input: &str, subject: Subject) -> bool {
    match subject {
        Subject::Span(a, _) => {
            let lines = lines_of(input);
            lines.iter().skip(1).any(|(s, _)| *s == a)
        }
        _ => false,
    }
}

/// `emulate_line_start`: predict the rendering of the known finding instead of the correct one
/// (the span's start is attributed to the end of the previous line). Only used to recognise that
/// finding precisely; never to accept anything else.
pub fn judge_with(input: &str, subject: Subject, out: &str, emulate_line_start: bool) -> Vec<(String, String)> {
    let mut bad = Vec::new();
    let lines = lines_of(input);
    let rows = match parse(out) {
        Ok(r) => r,
        Err(e) => {
            if out.is_empty() {
                bad.push(("empty-output".to_string(), "nothing was rendered".to_string()));
            } else {
                bad.push(("unparseable".to_string(), e));
            }
            return bad;
        }
    };
    // numbered lines: number and text
    let mut numbered: Vec<(usize, usize)> = Vec::new(); // (row index, number)
    for (i, r) in rows.iter().enumerate() {
        if let Row::Numbered(n, text) = r {
            if *n == 0 || *n > lines.len() {
                // an extra empty line after a trailing LF is tolerated for end-of-input subjects
                let at_end = match subject {
                    Subject::Pos(o) => o == input.len(),
                    Subject::Span(a, b) => a == b && a == input.len(),
                };
                if !(at_end && *n == lines.len() + 1 && text.is_empty() && input.ends_with('\n')) {
                    bad.push(("line-number".into(), format!("line number {} does not exist ({} lines)", n, lines.len())));
                }
            } else {
                let (s, e) = lines[*n - 1];
                let want = visualize(&input[s..e]);
                if *text != want {
                    bad.push(("line-text".into(), format!("line {} shown as {:?}, input line is {:?}", n, text, want)));
                }
            }
            if let Some((_, prev)) = numbered.last() {
                if *n <= *prev {
                    bad.push(("line-order".into(), format!("line {} shown after line {}", n, prev)));
                }
            }
            numbered.push((i, *n));
        }
    }
    // expected first / last line (0-based) and the cells the markers may occupy
    let len = input.len();
    let (mut first, mut last, mut first_cells, mut last_cells, empty, is_pos): (usize, usize, (usize, usize), (usize, usize), bool, bool) = match subject {
        Subject::Span(a, b) if a < b => {
            let f = line_index(&lines, a);
            let l = line_index(&lines, b - 1);
            let fc = cells(&input[lines[f].0..a]);
            let first_char = input[a..].chars().next().unwrap();
            let last_char = input[..b].chars().next_back().unwrap();
            let lc_end = cells(&input[lines[l].0..b]);
            // a zero-width character (combining mark) occupies no cell of its own: a marker at the
            // cell where it is attached points at it
            let lw = picture(last_char).width_cjk().unwrap_or(0);
            let fw = picture(first_char).width_cjk().unwrap_or(0);
            (f, l, (fc, fc + fw.max(1)), (lc_end - lw, (lc_end - lw) + lw.max(1)), false, false)
        }
        Subject::Span(a, _) | Subject::Pos(a) => {
            let f = if a == len { lines.len() - 1 } else { line_index(&lines, a) };
            let c = cells(&input[lines[f].0..a]);
            (f, f, (c, c + 1), (c, c + 1), true, matches!(subject, Subject::Pos(_)))
        }
    };
    if emulate_line_start && starts_at_line_start(input, subject) {
        let prev = first - 1;
        let c = cells(&input[lines[prev].0..lines[prev].1]);
        first = prev;
        first_cells = (c, c + 1);
        if empty {
            last = prev;
            last_cells = first_cells;
        }
    }
    if numbered.is_empty() {
        if !input.is_empty() {
            bad.push(("no-numbered-line".into(), "no input line is shown".into()));
        }
        return bad;
    }
    let shown_first = numbered.first().unwrap().1;
    let shown_last = numbered.last().unwrap().1;
    let alt_end = empty && input.ends_with('\n') && matches!(subject, Subject::Pos(o) | Subject::Span(o, _) if o == len);
    let alt_used = alt_end && shown_first == lines.len() + 1;
    if shown_first != first + 1 && !alt_used {
        bad.push(("first-line".into(), format!("first shown line is {}, the first character is on line {}", shown_first, first + 1)));
    }
    if shown_last != last + 1 && !alt_used {
        bad.push(("last-line".into(), format!("last shown line is {}, the last character is on line {}", shown_last, last + 1)));
    }
    // markers
    let first_row = numbered.first().unwrap().0;
    let last_row = numbered.last().unwrap().0;
    let mut v_marks: Vec<usize> = Vec::new();
    let mut c_marks: Vec<usize> = Vec::new();
    for (i, r) in rows.iter().enumerate() {
        if let Row::Filler(content) = r {
            if content == "..." {
                if i < first_row || i > last_row {
                    bad.push(("marker/ellipsis-place".into(), "ellipsis outside the shown lines".into()));
                }
                continue;
            }
            for (cell, ch) in content.chars().enumerate() {
                match ch {
                    ' ' => {}
                    'v' if i < first_row => v_marks.push(cell),
                    '^' if i > last_row => c_marks.push(cell),
                    _ => bad.push(("marker/stray".into(), format!("unexpected {:?} in marker row {:?}", ch, content))),
                }
            }
        }
    }
    if !bad.is_empty() && bad.iter().any(|(s, _)| s == "first-line" || s == "last-line") {
        // marker columns are meaningless relative to the wrong line; the line error is the finding
        return bad;
    }
    let (fc, lc) = if alt_used { ((0, 1), (0, 1)) } else { (first_cells, last_cells) };
    if is_pos {
        if !(v_marks.is_empty() && c_marks.len() == 1 && c_marks[0] == fc.0) {
            bad.push(("marker/position".into(), format!("a position is marked by one ^ at cell {}; got v={:?} ^={:?}", fc.0, v_marks, c_marks)));
        }
    } else if empty {
        let ok = v_marks.is_empty() && (c_marks.is_empty() || (c_marks.len() == 1 && c_marks[0] == fc.0));
        if !ok {
            bad.push(("marker/empty-span".into(), format!("an empty span has no marker or one ^ at cell {}; got v={:?} ^={:?}", fc.0, v_marks, c_marks)));
        }
    } else if v_marks.is_empty() {
        // one-row form: the ^ run covers exactly the span's cells
        if first != last {
            bad.push(("marker/missing-v".into(), "a multi-line span needs a marker for its first character".into()));
        } else {
            let want: Vec<usize> = (fc.0..lc.1).collect();
            let single_ok = c_marks.len() == 1 && first == last && fc == lc && c_marks[0] >= lc.0 && c_marks[0] < lc.1;
            if c_marks != want && !single_ok {
                bad.push(("marker/single-line-run".into(), format!("^ run should cover cells {}..{}, got {:?}", fc.0, lc.1, c_marks)));
            }
        }
    } else {
        if !(v_marks.len() == 1 && v_marks[0] >= fc.0 && v_marks[0] < fc.1) {
            bad.push(("marker/v".into(), format!("v should sit in cells {}..{} of the first character, got {:?}", fc.0, fc.1, v_marks)));
        }
        if !(c_marks.len() == 1 && c_marks[0] >= lc.0 && c_marks[0] < lc.1) {
            bad.push(("marker/caret".into(), format!("^ should sit in cells {}..{} of the last character, got {:?}", lc.0, lc.1, c_marks)));
        }
    }
    bad
}

const L: char = '\u{E000}'; // span piece open
const R: char = '\u{E001}'; // close (all kinds)
const M: char = '\u{E002}'; // marker piece open
const N: char = '\u{E003}'; // number piece open

fn strip(s: &str) -> String {
    s.chars().filter(|c| !matches!(*c, L | R | M | N)).collect()
}

fn render(input: &str, subject: Subject) -> (Result<String, String>, Result<String, String>) {
    use std::fmt::Write;
    use std::panic::{catch_unwind, AssertUnwindSafe};
    let default = catch_unwind(AssertUnwindSafe(|| match subject {
        Subject::Span(a, b) => pest_typed::Span::new(input, a, b).expect("valid span").to_string(),
        Subject::Pos(o) => pest_typed::Position::new(input, o).expect("valid position").to_string(),
    }))
    .map_err(|e| vutil::panic_text(&*e));
    let custom = catch_unwind(AssertUnwindSafe(|| {
        let mut buf = String::new();
        let opt = pest_typed::FormatOption::new::<String>(
            |s: &str, f: &mut String| write!(f, "{}{}{}", L, s, R),
            |s: &str, f: &mut String| write!(f, "{}{}{}", M, s, R),
            |s: &str, f: &mut String| write!(f, "{}{}{}", N, s, R),
        );
        let r = match subject {
            Subject::Span(a, b) => pest_typed::Span::new(input, a, b).unwrap().display(&mut buf, opt),
            Subject::Pos(o) => pest_typed::Position::new(input, o).unwrap().display(&mut buf, opt),
        };
        r.map(|_| buf).map_err(|_| "fmt::Error".to_string())
    }))
    .map_err(|e| vutil::panic_text(&*e))
    .and_then(|r| r);
    (default, custom)
}

/// Root-cause classes of deviations (used as signature prefix). Everything else is unclassified.
fn classify(input: &str, subject: Subject, what: &str) -> String {
    let _ = (input, subject);
    format!("unclassified/C14/{}", what)
}

pub const KNOWN_LINE_START: &str = "C14/span-starting-at-a-line-start-is-shown-from-the-end-of-the-previous-line";

/// Judge a rendering; a deviation is attributed to the known finding only if the subject has the
/// feature and the rendering is exactly what the emulation predicts.
fn judge_classified(input: &str, subject: Subject, out: &str, prefix: &str) -> Vec<(String, String)> {
    let dev = judge(input, subject, out);
    if dev.is_empty() {
        return dev;
    }
    if starts_at_line_start(input, subject) && judge_with(input, subject, out, true).is_empty() {
        return vec![(KNOWN_LINE_START.to_string(), dev.into_iter().map(|(_, w)| w).collect::<Vec<_>>().join("; "))];
    }
    dev.into_iter().map(|(s, w)| (classify(input, subject, &format!("{}{}", prefix, s)), w)).collect()
}

/// A rendering whose layout (`<number> | <text>` rows, blank-gutter marker rows) this monitor cannot
/// read says nothing about the property either way: the run is inconclusive, not a violation.
fn unparseable(l: &mut Local, input: &str, out: &str, why: &str) {
    l.count("unparseable_layout");
    if l.inconclusive.len() < 3 {
        l.inconclusive.push(format!("rendering of input {:?} has a layout the C14 oracle cannot read ({}): {:?}", input, why, out));
    }
}

fn check(l: &mut Local, input: &str, subject: Subject, class: &str) {
    l.evaluations += 1;
    let nontrivial = !input.is_empty();
    if nontrivial {
        l.nontrivial += 1;
    }
    let wit = |extra: Value| {
        let (kind, a, b) = match subject {
            Subject::Span(a, b) => ("span", a, b),
            Subject::Pos(o) => ("position", o, o),
        };
        json!({"input": input, "kind": kind, "start": a, "end": b, "class": class, "detail": extra})
    };
    let (default, custom) = render(input, subject);
    match &default {
        Err(p) => {
            l.violation(classify(input, subject, "panic/default"), format!("to_string() panicked: {}", p), wit(json!(p)));
        }
        Ok(out) => {
            l.count("rendered_default");
            for (sig, what) in judge_classified(input, subject, out, "") {
                if sig.ends_with("/unparseable") {
                    unparseable(l, input, out, &what);
                    continue;
                }
                l.violation(sig, what, wit(json!({"rendered": out})));
            }
        }
    }
    match &custom {
        Err(p) => {
            l.violation(classify(input, subject, "panic/custom"), format!("display(custom) failed: {}", p), wit(json!(p)));
        }
        Ok(out) => {
            l.count("rendered_custom");
            let stripped = strip(out);
            for (sig, what) in judge_classified(input, subject, &stripped, "custom/") {
                if sig.ends_with("/unparseable") {
                    unparseable(l, input, out, &what);
                    continue;
                }
                l.violation(sig, what, wit(json!({"rendered": out})));
            }
            // how often each formatter was used (observability of the option plumbing)
            l.count_n("custom_span_pieces", out.matches(L).count() as u64);
            l.count_n("custom_marker_pieces", out.matches(M).count() as u64);
            l.count_n("custom_number_pieces", out.matches(N).count() as u64);
            if let Ok(d) = &default {
                if *d == stripped {
                    l.count("custom_equals_default_after_stripping");
                } else {
                    l.count("custom_differs_from_default_after_stripping");
                }
            }
        }
    }
    match subject {
        Subject::Span(a, b) if a == b => l.count("empty_spans"),
        Subject::Span(..) => l.count("nonempty_spans"),
        Subject::Pos(o) if o == input.len() => l.count("positions_at_end"),
        Subject::Pos(_) => l.count("positions"),
    }
}

fn check_all(l: &mut Local, s: &str, class: &str) {
    let bounds: Vec<usize> = (0..=s.len()).filter(|i| s.is_char_boundary(*i)).collect();
    for (i, a) in bounds.iter().enumerate() {
        check(l, s, Subject::Pos(*a), class);
        for b in &bounds[i..] {
            check(l, s, Subject::Span(*a, *b), class);
        }
    }
}

pub fn run(col: &Collector, thorough: bool, seed: u64, jobs: usize) -> Value {
    let max_len = crate::max_len_override().unwrap_or(if thorough { 7 } else { 6 });
    let k = ALPHABET.len();
    vutil::run_workers(jobs, col, |w, n| {
        let mut l = Local::new();
        let mut s = String::new();
        for (alphabet, limit, class) in [(&ALPHABET, max_len, "exhaustive"), (&ALPHABET_EDGE, max_len.saturating_sub(1), "exhaustive-edge-alphabet"), (&ALPHABET_LOW, max_len.saturating_sub(1), "exhaustive-low-byte-is-a-line-break")] {
            for len in 0..=limit {
                let total = vutil::pow(k, len);
                let mut idx = w as u64;
                while idx < total {
                    vutil::nth_string(alphabet, len, idx, &mut s);
                    check_all(&mut l, &s, class);
                    l.count("strings");
                    if idx % 2003 == 5 {
                        l.sample(json!({"input": s, "subjects": "every position and every span on char boundaries", "class": class}));
                    }
                    idx += n as u64;
                }
            }
        }
        // many-line inputs: more than five lines (elision) and more than nine (two-digit numbers)
        let mut rng = Rng::new(seed).derive(w as u64 + 7);
        let many = if crate::max_len_override().is_some() { 2 } else if thorough { 400 } else { 60 };
        let mut t = w;
        while t < many {
            let nlines = [6, 7, 8, 10, 11, 12, 13][rng.below(7)];
            let mut s = String::new();
            for _ in 0..nlines {
                for _ in 0..rng.below(4) {
                    s.push_str(ALPHABET[1 + rng.below(5)]);
                }
                if rng.chance(1, 8) {
                    s.push('\r');
                }
                s.push('\n');
            }
            if rng.chance(1, 2) {
                s.push_str(ALPHABET[3 + rng.below(3)]);
            }
            check_all(&mut l, &s, "many-lines");
            l.count("many_line_inputs");
            if t % 17 == 0 {
                l.sample(json!({"input": s, "lines": nlines, "subjects": "every position and every span on char boundaries"}));
            }
            t += n;
        }
        l
    });
    json!({
        "exhaustive": true,
        "scope": format!("all strings of length <= {} over {:?} (including the empty string) x every position and every span on char boundaries, rendered with the default and with a recording FormatOption; plus seeded inputs of 6..13 lines", max_len, ALPHABET),
        "rule": "evaluation = one (string, span or position) rendered twice and judged by the line/cell model; non-trivial = the string is non-empty; distinct by enumeration (seeded many-line inputs may in principle repeat; they are <1% of cases)",
    })
}

#[cfg(test)]
mod tests {
    use super::*;
    #[test]
    fn model_accepts_the_suite_examples() {
        let out = "  |   v\n1 | 123␊\n2 | 456␊\n  | ^\n";
        assert!(judge("123\n456\n", Subject::Span(2, 5), out).is_empty());
        let out = "  |\n2 | 456␊\n  |   ^\n";
        assert!(judge("123\n456\n789\n", Subject::Span(6, 7), out).is_empty());
        let out = "  |\n2 | 456␊\n  |  ^\n";
        assert!(judge("123\n456\n789\n", Subject::Pos(5), out).is_empty());
    }
    #[test]
    fn model_rejects_wrong_line() {
        let out = "  |     v\n1 | 123␊\n2 | 456␊\n  | ^\n";
        assert!(!judge("123\n456\n", Subject::Span(4, 5), out).is_empty());
    }
}

pub fn replay(l: &mut Local, input: &str, w: &Value) {
    let a = w["start"].as_u64().unwrap_or(0) as usize;
    let b = w["end"].as_u64().unwrap_or(0) as usize;
    let subject = if w["kind"] == "position" { Subject::Pos(a) } else { Subject::Span(a, b) };
    check(l, input, subject, "replay");
}
