//! C13: Span operations agree with pest::Span.

use serde_json::{json, Value};
use std::collections::hash_map::DefaultHasher;
use std::hash::{Hash, Hasher};
use vutil::{Collector, Local};

pub const ALPHABET: [&str; 5] = ["\n", "\r", "a", "é", "€"];
/// Byte-level diversity: extreme characters of the UTF-8 length classes (continuation bytes 0xBF / 0x80).
pub const ALPHABET_EDGE: [&str; 5] = ["\n", "\u{7ff}", "\u{ffff}", "\u{10000}", "\u{80}"];

/// Characters whose code point truncated to a byte is LF / CR (see c12::ALPHABET_LOW).
pub const ALPHABET_LOW: [&str; 5] = ["\n", "\r", "\u{10a}", "\u{4e0a}", "\u{1f60a}"];

fn h<T: Hash>(t: &T) -> u64 {
    let mut s = DefaultHasher::new();
    t.hash(&mut s);
    s.finish()
}

type TS<'a> = pest_typed::Span<'a>;
type PS<'a> = pest::Span<'a>;

fn se(t: &Option<TS<'_>>) -> Option<(usize, usize)> {
    t.as_ref().map(|s| (s.start(), s.end()))
}
fn pe(t: &Option<PS<'_>>) -> Option<(usize, usize)> {
    t.as_ref().map(|s| (s.start(), s.end()))
}

macro_rules! guard {
    ($l:expr, $sig:expr, $wit:expr, $e:expr) => {
        match std::panic::catch_unwind(std::panic::AssertUnwindSafe(|| $e)) {
            Ok(v) => Some(v),
            Err(e) => {
                $l.violation(
                    format!("unclassified/C13/{}/panic", $sig),
                    format!("{} panicked: {}", $sig, vutil::panic_text(&*e)),
                    $wit,
                );
                None
            }
        }
    };
}

fn check_string(l: &mut Local, s: &str, do_get: bool) {
    let n = s.len();
    let mut valid: Vec<(usize, usize, TS<'_>, PS<'_>)> = Vec::new();
    for a in 0..=n + 1 {
        for b in 0..=n + 1 {
            l.evaluations += 1;
            let wit = json!({"input": s, "start": a, "end": b});
            let t = match guard!(l, "new", wit.clone(), TS::new(s, a, b)) {
                Some(t) => t,
                None => continue,
            };
            let p = PS::new(s, a, b);
            if se(&t) != pe(&p) {
                l.violation(
                    "unclassified/C13/new",
                    format!("Span::new -> {:?}, pest -> {:?}", se(&t), pe(&p)),
                    wit,
                );
                continue;
            }
            if let (Some(t), Some(p)) = (t, p) {
                valid.push((a, b, t, p));
            }
        }
    }
    for (a, b, t, p) in valid.iter() {
        let (a, b) = (*a, *b);
        let wit = json!({"input": s, "start": a, "end": b});
        l.evaluations += 1;
        if b > a {
            l.nontrivial += 1;
        }
        // accessors
        if (t.start(), t.end()) != (p.start(), p.end()) {
            l.violation("unclassified/C13/start-end", "start()/end() differ", wit.clone());
        }
        if let Some(ts) = guard!(l, "as_str", wit.clone(), t.as_str()) {
            if ts != p.as_str() || ts.as_ptr() != p.as_str().as_ptr() {
                l.violation(
                    "unclassified/C13/as_str",
                    format!("as_str {:?} vs pest {:?}", ts, p.as_str()),
                    wit.clone(),
                );
            }
        }
        if t.get_input().as_ptr() != p.get_input().as_ptr() || t.get_input().len() != p.get_input().len() {
            l.violation("unclassified/C13/get_input", "get_input differs", wit.clone());
        }
        if let Some((sp, ep, (s1, s2))) = guard!(l, "positions", wit.clone(), {
            (t.start_pos().pos(), t.end_pos().pos(), {
                let (x, y) = t.split();
                (x.pos(), y.pos())
            })
        }) {
            let (ps1, ps2) = p.split();
            if (sp, ep, s1, s2) != (p.start_pos().pos(), p.end_pos().pos(), ps1.pos(), ps2.pos()) {
                l.violation("unclassified/C13/start_pos-end_pos-split", "position accessors differ", wit.clone());
            }
        }
        // lines / lines_span
        if let Some(tl) = guard!(l, "lines", wit.clone(), t.lines().collect::<Vec<_>>()) {
            let pl: Vec<&str> = p.lines().collect();
            if tl != pl || tl.iter().zip(pl.iter()).any(|(x, y)| x.as_ptr() != y.as_ptr()) {
                l.violation(
                    "unclassified/C13/lines",
                    format!("lines {:?} vs pest {:?}", tl, pl),
                    wit.clone(),
                );
            }
            l.count_n("lines_yielded", tl.len() as u64);
        }
        if let Some(tl) = guard!(
            l,
            "lines_span",
            wit.clone(),
            t.lines_span().map(|x| (x.start(), x.end())).collect::<Vec<_>>()
        ) {
            let pl: Vec<(usize, usize)> = p.lines_span().map(|x| (x.start(), x.end())).collect();
            if tl != pl {
                l.violation(
                    "unclassified/C13/lines_span",
                    format!("lines_span {:?} vs pest {:?}", tl, pl),
                    wit.clone(),
                );
            }
        }
        // sub-ranges
        if do_get {
            let len = b - a;
            for x in 0..=len + 1 {
                // one-sided forms
                let forms1: [(&str, Option<(usize, usize)>, Option<(usize, usize)>); 3] = [
                    ("x..", se(&t.get(x..)), pe(&p.get(x..))),
                    ("..x", se(&t.get(..x)), pe(&p.get(..x))),
                    ("..=x", se(&t.get(..=x)), pe(&p.get(..=x))),
                ];
                for (f, tv, pv) in forms1 {
                    l.evaluations += 1;
                    if tv != pv {
                        l.violation(
                            format!("unclassified/C13/get/{}", f),
                            format!("get({}) with x={} -> {:?}, pest {:?}", f, x, tv, pv),
                            wit.clone(),
                        );
                    }
                }
                for y in 0..=len + 1 {
                    l.evaluations += 2;
                    let r1 = guard!(l, "get", wit.clone(), se(&t.get(x..y)));
                    if let Some(tv) = r1 {
                        let pv = pe(&p.get(x..y));
                        if tv != pv {
                            l.violation(
                                "unclassified/C13/get/x..y",
                                format!("get({}..{}) -> {:?}, pest {:?}", x, y, tv, pv),
                                wit.clone(),
                            );
                        }
                    }
                    let r2 = guard!(l, "get", wit.clone(), se(&t.get(x..=y)));
                    if let Some(tv) = r2 {
                        let pv = pe(&p.get(x..=y));
                        if tv != pv {
                            l.violation(
                                "unclassified/C13/get/x..=y",
                                format!("get({}..={}) -> {:?}, pest {:?}", x, y, tv, pv),
                                wit.clone(),
                            );
                        }
                    }
                }
            }
            l.evaluations += 1;
            if se(&t.get(..)) != pe(&p.get(..)) {
                l.violation("unclassified/C13/get/..", "get(..) differs", wit.clone());
            }
        }
    }
    // pairs: ==, hash, merge
    for (a1, b1, t1, p1) in valid.iter() {
        for (a2, b2, t2, p2) in valid.iter() {
            l.evaluations += 1;
            let wit = || json!({"input": s, "a": [a1, b1], "b": [a2, b2]});
            let teq = t1 == t2;
            let peq = p1 == p2;
            if teq != peq {
                l.violation("unclassified/C13/eq", format!("== is {} but pest's is {}", teq, peq), wit());
            }
            if teq && h(t1) != h(t2) {
                l.violation("unclassified/C13/hash", "equal spans hash differently", wit());
            }
            let tm = match guard!(l, "merge_spans", wit(), pest_typed::merge_spans(t1, t2)) {
                Some(v) => v,
                None => continue,
            };
            let pm = pest::merge_spans(p1, p2);
            if se(&tm) != pe(&pm) {
                l.violation(
                    "unclassified/C13/merge_spans",
                    format!("merge_spans -> {:?}, pest {:?}", se(&tm), pe(&pm)),
                    wit(),
                );
            }
            if tm.is_some() {
                l.count("merges_succeeded");
            } else {
                l.count("merges_refused");
            }
        }
    }
    l.count("strings");
    l.count_n("valid_spans", valid.len() as u64);
}

pub fn run(col: &Collector, thorough: bool, _seed: u64, jobs: usize) -> Value {
    let max_len = crate::max_len_override().unwrap_or(if thorough { 7 } else { 6 });
    let get_len = crate::max_len_override().map(|m| m.saturating_sub(1)).unwrap_or(if thorough { 6 } else { 5 });
    let k = ALPHABET.len();
    vutil::run_workers(jobs, col, |w, n| {
        let mut l = Local::new();
        let mut s = String::new();
        for (alphabet, limit) in [(&ALPHABET, max_len), (&ALPHABET_EDGE, max_len.saturating_sub(2)), (&ALPHABET_LOW, max_len.saturating_sub(2))] {
            for len in 0..=limit {
                let total = vutil::pow(k, len);
                let mut idx = w as u64;
                while idx < total {
                    vutil::nth_string(alphabet, len, idx, &mut s);
                    check_string(&mut l, &s, len <= get_len);
                    if idx % 3001 == 11 {
                        l.sample(json!({"input": s, "spans": "all (start,end) in 0..=len+1", "sub_ranges": len <= get_len}));
                    }
                    idx += n as u64;
                }
            }
        }
        l
    });
    json!({
        "exhaustive": true,
        "scope": format!("all strings of length <= {} over {:?}: every (start,end) in 0..=len+1 for Span::new, every valid span for accessors/lines/lines_span, every ordered pair of valid spans for ==/hash/merge_spans; every sub-range bound 0..=len+1 in the forms x..y, x..=y, x.., ..y, ..=y, .. for strings of length <= {}", max_len, ALPHABET, get_len),
        "rule": "evaluation = one API call compared with pest::Span on the same (string,start,end); non-trivial = a valid non-empty span (distinct (string,start,end) by enumeration)",
    })
}

pub fn replay(l: &mut Local, input: &str) {
    check_string(l, input, true);
}
