//! Small shared helpers for the verification engines: argument parsing, a seeded PRNG,
//! the result document every engine writes, and a worker pool.

use serde_json::{json, Map, Value};
use std::collections::BTreeMap;
use std::sync::Mutex;

/// `--key value` / `--flag` arguments.
pub struct Args {
    map: BTreeMap<String, String>,
}

impl Args {
    pub fn parse() -> Self {
        let mut map = BTreeMap::new();
        let v: Vec<String> = std::env::args().skip(1).collect();
        let mut i = 0;
        while i < v.len() {
            if let Some(k) = v[i].strip_prefix("--") {
                if i + 1 < v.len() && !v[i + 1].starts_with("--") {
                    map.insert(k.to_string(), v[i + 1].clone());
                    i += 2;
                } else {
                    map.insert(k.to_string(), "1".to_string());
                    i += 1;
                }
            } else {
                i += 1;
            }
        }
        Self { map }
    }
    pub fn get(&self, k: &str) -> Option<&str> {
        self.map.get(k).map(|s| s.as_str())
    }
    pub fn str(&self, k: &str, d: &str) -> String {
        self.get(k).unwrap_or(d).to_string()
    }
    pub fn u64(&self, k: &str, d: u64) -> u64 {
        self.get(k).and_then(|s| s.parse().ok()).unwrap_or(d)
    }
    pub fn has(&self, k: &str) -> bool {
        self.map.contains_key(k)
    }
    pub fn thorough(&self) -> bool {
        self.str("tier", "quick") == "thorough"
    }
}

/// xorshift64* PRNG; deterministic for a seed.
#[derive(Clone)]
pub struct Rng(pub u64);

impl Rng {
    pub fn new(seed: u64) -> Self {
        let mut r = Rng(seed ^ 0x9E37_79B9_7F4A_7C15);
        if r.0 == 0 {
            r.0 = 0x1234_5678_9ABC_DEF1;
        }
        for _ in 0..4 {
            r.next();
        }
        r
    }
    pub fn derive(&self, salt: u64) -> Rng {
        Rng::new(self.0 ^ salt.wrapping_mul(0xD6E8_FEB8_6659_FD93).rotate_left(17))
    }
    pub fn next(&mut self) -> u64 {
        let mut x = self.0;
        x ^= x >> 12;
        x ^= x << 25;
        x ^= x >> 27;
        self.0 = x;
        x.wrapping_mul(0x2545_F491_4F6C_DD1D)
    }
    pub fn below(&mut self, n: usize) -> usize {
        if n == 0 {
            0
        } else {
            (self.next() % n as u64) as usize
        }
    }
    pub fn chance(&mut self, num: u32, den: u32) -> bool {
        (self.next() % den as u64) < num as u64
    }
    pub fn pick<'a, T>(&mut self, v: &'a [T]) -> &'a T {
        &v[self.below(v.len())]
    }
}

/// FNV-1a, used for cheap distinct counting.
pub fn fnv(bytes: &[u8]) -> u64 {
    let mut h = 0xcbf29ce484222325u64;
    for b in bytes {
        h ^= *b as u64;
        h = h.wrapping_mul(0x100000001b3);
    }
    h
}

/// One violation of a property, with the signature that the known-findings file is matched on.
#[derive(Clone, Debug)]
pub struct Violation {
    /// Root-cause class, e.g. `C14/span/panic/empty-input`. Everything not classified by a
    /// specific predicate is `unclassified/...` and can never match a known finding.
    pub signature: String,
    /// Human readable one-liner.
    pub what: String,
    /// Everything needed to replay.
    pub witness: Value,
}

/// Thread-safe collector of what a run observed.
pub struct Collector {
    inner: Mutex<Inner>,
}

#[derive(Default)]
struct Inner {
    evaluations: u64,
    nontrivial: u64,
    counters: BTreeMap<String, u64>,
    violations: Vec<Violation>,
    violation_count: BTreeMap<String, u64>,
    samples: Vec<Value>,
    inconclusive: Vec<String>,
    notes: Vec<String>,
}

impl Default for Collector {
    fn default() -> Self {
        Self::new()
    }
}

impl Collector {
    pub fn new() -> Self {
        Self {
            inner: Mutex::new(Inner::default()),
        }
    }
    /// Merge a worker-local tally.
    pub fn add(&self, local: Local) {
        let mut g = self.inner.lock().unwrap();
        g.evaluations += local.evaluations;
        g.nontrivial += local.nontrivial;
        for (k, v) in local.counters {
            *g.counters.entry(k).or_default() += v;
        }
        for v in local.violations {
            let c = g.violation_count.entry(v.signature.clone()).or_default();
            *c += 1;
            // keep the first few witnesses per signature
            if *c <= 5 {
                g.violations.push(v);
            }
        }
        for (sig, n) in local.violation_overflow {
            *g.violation_count.entry(sig).or_default() += n;
        }
        for s in local.samples {
            if g.samples.len() < 12 {
                g.samples.push(s);
            }
        }
        g.inconclusive.extend(local.inconclusive);
        g.notes.extend(local.notes);
    }
    pub fn finish(self, extra: Value) -> Value {
        let g = self.inner.into_inner().unwrap();
        let mut m = Map::new();
        m.insert("evaluations".into(), json!(g.evaluations));
        m.insert("distinct_nontrivial".into(), json!(g.nontrivial));
        m.insert("counters".into(), json!(g.counters));
        m.insert("samples".into(), json!(g.samples));
        m.insert(
            "violations".into(),
            Value::Array(
                g.violations
                    .iter()
                    .map(|v| json!({"signature": v.signature, "what": v.what, "witness": v.witness}))
                    .collect(),
            ),
        );
        m.insert("violation_counts".into(), json!(g.violation_count));
        m.insert("inconclusive".into(), json!(g.inconclusive));
        m.insert("notes".into(), json!(g.notes));
        if let Value::Object(e) = extra {
            for (k, v) in e {
                m.insert(k, v);
            }
        }
        Value::Object(m)
    }
}

/// Worker-local tally (no locking on the hot path).
#[derive(Default)]
pub struct Local {
    pub evaluations: u64,
    pub nontrivial: u64,
    pub counters: BTreeMap<String, u64>,
    pub violations: Vec<Violation>,
    pub violation_overflow: BTreeMap<String, u64>,
    per_sig: BTreeMap<String, u64>,
    pub samples: Vec<Value>,
    pub inconclusive: Vec<String>,
    pub notes: Vec<String>,
}

impl Local {
    pub fn new() -> Self {
        Self::default()
    }
    pub fn count(&mut self, k: &str) {
        self.count_n(k, 1);
    }
    pub fn count_n(&mut self, k: &str, n: u64) {
        if let Some(c) = self.counters.get_mut(k) {
            *c += n;
        } else {
            self.counters.insert(k.to_string(), n);
        }
    }
    pub fn violation(&mut self, signature: impl Into<String>, what: impl Into<String>, witness: Value) {
        let signature = signature.into();
        let c = self.per_sig.entry(signature.clone()).or_default();
        *c += 1;
        if *c <= 3 {
            self.violations.push(Violation {
                signature,
                what: what.into(),
                witness,
            });
        } else {
            *self.violation_overflow.entry(signature).or_default() += 1;
        }
    }
    pub fn sample(&mut self, v: Value) {
        if self.samples.len() < 4 {
            self.samples.push(v);
        }
    }
}

/// Run `f(worker, nworkers)` on `n` threads (each with a large stack) and merge the tallies.
pub fn run_workers<F>(n: usize, collector: &Collector, f: F)
where
    F: Fn(usize, usize) -> Local + Sync,
{
    std::thread::scope(|scope| {
        let mut handles = Vec::new();
        for w in 0..n {
            let f = &f;
            handles.push(
                std::thread::Builder::new()
                    .stack_size(256 << 20)
                    .spawn_scoped(scope, move || f(w, n))
                    .unwrap(),
            );
        }
        for h in handles {
            match h.join() {
                Ok(local) => collector.add(local),
                Err(_) => {
                    let mut l = Local::new();
                    l.inconclusive.push("worker thread panicked outside catch_unwind".into());
                    collector.add(l);
                }
            }
        }
    });
}

/// Write the result document where the driver expects it.
pub fn write_out(args: &Args, doc: &Value) {
    let text = serde_json::to_string_pretty(doc).unwrap();
    match args.get("out") {
        Some(p) => std::fs::write(p, text).expect("write --out"),
        None => println!("{}", text),
    }
}

/// Number of worker threads.
pub fn jobs(args: &Args) -> usize {
    args.u64(
        "jobs",
        std::thread::available_parallelism().map(|n| n.get() as u64).unwrap_or(8),
    ) as usize
}

/// Silence the default panic hook (panics are observations here, not noise).
pub fn quiet_panics() {
    std::panic::set_hook(Box::new(|_| {}));
}

/// Render a panic payload.
pub fn panic_text(p: &(dyn std::any::Any + Send)) -> String {
    if let Some(s) = p.downcast_ref::<&str>() {
        s.to_string()
    } else if let Some(s) = p.downcast_ref::<String>() {
        s.clone()
    } else {
        "<non-string panic payload>".to_string()
    }
}

/// All strings over `alphabet` with `len` symbols, enumerated by index.
pub fn nth_string(alphabet: &[&str], len: usize, mut idx: u64, out: &mut String) {
    out.clear();
    let k = alphabet.len() as u64;
    for _ in 0..len {
        out.push_str(alphabet[(idx % k) as usize]);
        idx /= k;
    }
}

pub fn pow(k: usize, n: usize) -> u64 {
    (k as u64).pow(n as u32)
}
