//! Own expression tree, converted from pest_meta's optimized (and raw) ASTs.

use pest_meta::ast::{Expr, Rule as AstRule, RuleType};
use pest_meta::optimizer::{OptimizedExpr, OptimizedRule};
use std::collections::HashMap;

#[derive(Clone, Copy, Debug, PartialEq, Eq, Hash, PartialOrd, Ord)]
pub enum Kind {
    Normal,
    Silent,
    Atomic,
    CompoundAtomic,
    NonAtomic,
}

impl Kind {
    pub fn sigil(self) -> &'static str {
        match self {
            Kind::Normal => "",
            Kind::Silent => "_",
            Kind::Atomic => "@",
            Kind::CompoundAtomic => "$",
            Kind::NonAtomic => "!",
        }
    }
    pub fn from(ty: RuleType) -> Self {
        match ty {
            RuleType::Normal => Kind::Normal,
            RuleType::Silent => Kind::Silent,
            RuleType::Atomic => Kind::Atomic,
            RuleType::CompoundAtomic => Kind::CompoundAtomic,
            RuleType::NonAtomic => Kind::NonAtomic,
        }
    }
}

#[derive(Clone, Debug, PartialEq)]
pub enum Node {
    Str(String),
    Insens(String),
    Range(char, char),
    /// Reference to a rule or built-in; `mention` numbers the Ident nodes of one rule in expression order.
    Ident { name: String, mention: usize },
    PeekSlice(i32, Option<i32>),
    PosPred(Box<Node>),
    NegPred(Box<Node>),
    /// Right-nested sequences flattened exactly as the generator's `walk!` does.
    Seq(Vec<Node>),
    Choice(Vec<Node>),
    Opt(Box<Node>),
    Rep(Box<Node>),
    // raw AST only (pest_optimizer = false); RepOnce also in optimized ASTs of the grammar-extras build
    RepOnce(Box<Node>),
    RepExact(Box<Node>, u32),
    RepMin(Box<Node>, u32),
    RepMax(Box<Node>, u32),
    RepMinMax(Box<Node>, u32, u32),
    Skip(Vec<String>),
    Push(Box<Node>),
    RestoreOnErr(Box<Node>),
}

#[derive(Clone, Debug)]
pub struct RuleDef {
    pub name: String,
    pub kind: Kind,
    pub expr: Node,
    /// Number of Ident mentions in `expr`.
    pub mentions: usize,
}

#[derive(Clone, Debug)]
pub struct Grammar {
    pub text: String,
    pub rules: Vec<RuleDef>,
    pub index: HashMap<String, usize>,
    pub whitespace: Option<usize>,
    pub comment: Option<usize>,
}

fn first_char(s: &str) -> char {
    s.chars().next().unwrap_or('\0')
}

fn conv_opt(e: &OptimizedExpr, m: &mut usize) -> Node {
    use OptimizedExpr as O;
    match e {
        O::Str(s) => Node::Str(s.clone()),
        O::Insens(s) => Node::Insens(s.clone()),
        O::Range(a, b) => Node::Range(first_char(a), first_char(b)),
        O::Ident(n) => {
            let id = *m;
            *m += 1;
            Node::Ident { name: n.clone(), mention: id }
        }
        O::PeekSlice(a, b) => Node::PeekSlice(*a, *b),
        O::PosPred(x) => Node::PosPred(Box::new(conv_opt(x, m))),
        O::NegPred(x) => Node::NegPred(Box::new(conv_opt(x, m))),
        O::Seq(_, _) => {
            let mut v = Vec::new();
            let mut cur = e;
            while let O::Seq(l, r) = cur {
                v.push(conv_opt(l, m));
                cur = r;
            }
            v.push(conv_opt(cur, m));
            Node::Seq(v)
        }
        O::Choice(_, _) => {
            let mut v = Vec::new();
            let mut cur = e;
            while let O::Choice(l, r) = cur {
                v.push(conv_opt(l, m));
                cur = r;
            }
            v.push(conv_opt(cur, m));
            Node::Choice(v)
        }
        O::Opt(x) => Node::Opt(Box::new(conv_opt(x, m))),
        O::Rep(x) => Node::Rep(Box::new(conv_opt(x, m))),
        #[cfg(feature = "grammar-extras")]
        O::RepOnce(x) => Node::RepOnce(Box::new(conv_opt(x, m))),
        // a tag is transparent for matching and (with the default options) for the generated structure
        #[cfg(feature = "grammar-extras")]
        O::NodeTag(x, _) => conv_opt(x, m),
        O::Skip(s) => Node::Skip(s.clone()),
        O::Push(x) => Node::Push(Box::new(conv_opt(x, m))),
        O::RestoreOnErr(x) => Node::RestoreOnErr(Box::new(conv_opt(x, m))),
    }
}

fn conv_raw(e: &Expr, m: &mut usize) -> Node {
    use Expr as O;
    match e {
        O::Str(s) => Node::Str(s.clone()),
        O::Insens(s) => Node::Insens(s.clone()),
        O::Range(a, b) => Node::Range(first_char(a), first_char(b)),
        O::Ident(n) => {
            let id = *m;
            *m += 1;
            Node::Ident { name: n.clone(), mention: id }
        }
        O::PeekSlice(a, b) => Node::PeekSlice(*a, *b),
        O::PosPred(x) => Node::PosPred(Box::new(conv_raw(x, m))),
        O::NegPred(x) => Node::NegPred(Box::new(conv_raw(x, m))),
        O::Seq(_, _) => {
            let mut v = Vec::new();
            let mut cur = e;
            while let O::Seq(l, r) = cur {
                v.push(conv_raw(l, m));
                cur = r;
            }
            v.push(conv_raw(cur, m));
            Node::Seq(v)
        }
        O::Choice(_, _) => {
            let mut v = Vec::new();
            let mut cur = e;
            while let O::Choice(l, r) = cur {
                v.push(conv_raw(l, m));
                cur = r;
            }
            v.push(conv_raw(cur, m));
            Node::Choice(v)
        }
        O::Opt(x) => Node::Opt(Box::new(conv_raw(x, m))),
        O::Rep(x) => Node::Rep(Box::new(conv_raw(x, m))),
        O::RepOnce(x) => Node::RepOnce(Box::new(conv_raw(x, m))),
        O::RepExact(x, n) => Node::RepExact(Box::new(conv_raw(x, m)), *n),
        O::RepMin(x, n) => Node::RepMin(Box::new(conv_raw(x, m)), *n),
        O::RepMax(x, n) => Node::RepMax(Box::new(conv_raw(x, m)), *n),
        O::RepMinMax(x, a, b) => Node::RepMinMax(Box::new(conv_raw(x, m)), *a, *b),
        O::Skip(s) => Node::Skip(s.clone()),
        O::Push(x) => Node::Push(Box::new(conv_raw(x, m))),
        #[cfg(feature = "grammar-extras")]
        O::NodeTag(x, _) => conv_raw(x, m),
    }
}

/// Why a grammar text was not accepted by pest's front end.
#[derive(Clone, Debug)]
pub struct Rejected {
    pub stage: &'static str,
    pub messages: Vec<String>,
}

fn build(text: &str, rules: Vec<RuleDef>) -> Grammar {
    let index: HashMap<String, usize> = rules.iter().enumerate().map(|(i, r)| (r.name.clone(), i)).collect();
    Grammar {
        text: text.to_string(),
        whitespace: index.get("WHITESPACE").copied(),
        comment: index.get("COMMENT").copied(),
        rules,
        index,
    }
}

fn front(text: &str) -> Result<Vec<AstRule>, Rejected> {
    use pest_meta::parser::{self, Rule};
    let pairs = parser::parse(Rule::grammar_rules, text).map_err(|e| Rejected {
        stage: "syntax",
        messages: vec![format!("{}", e)],
    })?;
    pest_meta::validator::validate_pairs(pairs.clone()).map_err(|es| Rejected {
        stage: "validate_pairs",
        messages: es.iter().map(|e| format!("{}", e)).collect(),
    })?;
    parser::consume_rules(pairs).map_err(|es| Rejected {
        stage: "validate_ast",
        messages: es.iter().map(|e| format!("{}", e)).collect(),
    })
}

impl Grammar {
    /// The grammar as pest (and pest-typed by default) interprets it: the optimized AST.
    pub fn optimized(text: &str) -> Result<Grammar, Rejected> {
        let ast = front(text)?;
        let opt: Vec<OptimizedRule> = pest_meta::optimizer::optimize(ast);
        let rules = opt
            .iter()
            .map(|r| {
                let mut m = 0;
                let expr = conv_opt(&r.expr, &mut m);
                RuleDef { name: r.name.clone(), kind: Kind::from(r.ty), expr, mentions: m }
            })
            .collect();
        Ok(build(text, rules))
    }

    /// The raw AST (what pest-typed consumes with `pest_optimizer = false`).
    pub fn raw(text: &str) -> Result<Grammar, Rejected> {
        let ast = front(text)?;
        let rules = ast
            .iter()
            .map(|r| {
                let mut m = 0;
                let expr = conv_raw(&r.expr, &mut m);
                RuleDef { name: r.name.clone(), kind: Kind::from(r.ty), expr, mentions: m }
            })
            .collect();
        Ok(build(text, rules))
    }

    pub fn rule(&self, name: &str) -> Option<&RuleDef> {
        self.index.get(name).map(|i| &self.rules[*i])
    }

    /// Names of all rules reachable from `rule` (including itself and the implicit skip rules).
    pub fn reach(&self, rule: &str) -> Vec<String> {
        let mut seen: Vec<String> = Vec::new();
        let mut todo = vec![rule.to_string()];
        if self.whitespace.is_some() {
            todo.push("WHITESPACE".into());
        }
        if self.comment.is_some() {
            todo.push("COMMENT".into());
        }
        while let Some(n) = todo.pop() {
            if seen.contains(&n) {
                continue;
            }
            seen.push(n.clone());
            if let Some(r) = self.rule(&n) {
                r.expr.walk(&mut |x| {
                    if let Node::Ident { name, .. } = x {
                        todo.push(name.clone());
                    }
                });
            }
        }
        seen
    }

    /// Does anything reachable from `rule` touch the stack?
    pub fn uses_stack(&self, rule: &str) -> bool {
        for n in self.reach(rule) {
            if matches!(n.as_str(), "PEEK" | "PEEK_ALL" | "POP" | "POP_ALL" | "DROP") {
                return true;
            }
            if let Some(r) = self.rule(&n) {
                let mut hit = false;
                r.expr.walk(&mut |x| {
                    if matches!(x, Node::Push(_) | Node::PeekSlice(..)) {
                        hit = true;
                    }
                });
                if hit {
                    return true;
                }
            }
        }
        false
    }
}

impl Node {
    pub fn walk<'a>(&'a self, f: &mut dyn FnMut(&'a Node)) {
        f(self);
        match self {
            Node::PosPred(x)
            | Node::NegPred(x)
            | Node::Opt(x)
            | Node::Rep(x)
            | Node::RepOnce(x)
            | Node::RepExact(x, _)
            | Node::RepMin(x, _)
            | Node::RepMax(x, _)
            | Node::RepMinMax(x, _, _)
            | Node::Push(x)
            | Node::RestoreOnErr(x) => x.walk(f),
            Node::Seq(v) | Node::Choice(v) => v.iter().for_each(|x| x.walk(f)),
            _ => {}
        }
    }
    /// Strip `RestoreOnErr` wrappers (they are transparent for types and getters).
    pub fn peel(&self) -> &Node {
        match self {
            Node::RestoreOnErr(x) => x.peel(),
            x => x,
        }
    }
}

pub const BUILTINS: &[&str] = &[
    "ANY", "SOI", "EOI", "PEEK", "PEEK_ALL", "POP", "POP_ALL", "DROP", "ASCII_DIGIT", "ASCII_NONZERO_DIGIT",
    "ASCII_BIN_DIGIT", "ASCII_OCT_DIGIT", "ASCII_HEX_DIGIT", "ASCII_ALPHA_LOWER", "ASCII_ALPHA_UPPER", "ASCII_ALPHA",
    "ASCII_ALPHANUMERIC", "ASCII", "NEWLINE",
];
