//! Workload generation: sentences of a grammar, their mutations, small-scope exhaustive strings
//! over the grammar's own tokens, and hostile strings.

use crate::ast::{Grammar, Kind, Node};
use std::collections::{BTreeSet, HashMap};
use vutil::Rng;

/// Tokens (whole literals, representative characters, skippable text) a grammar reacts to.
#[derive(Clone, Debug, Default)]
pub struct Alphabet {
    /// Literal strings and representative characters, most relevant first.
    pub tokens: Vec<String>,
    /// Sentences of WHITESPACE / COMMENT (skippable text), if defined.
    pub skippable: Vec<String>,
    /// Text that only looks skippable (prefixes of skippable sentences).
    pub almost_skippable: Vec<String>,
}

const MULTIBYTE: [&str; 3] = ["é", "€", "😀"];

fn char_before(c: char) -> Option<char> {
    let mut u = c as u32;
    while u > 0 {
        u -= 1;
        if let Some(x) = char::from_u32(u) {
            return Some(x);
        }
    }
    None
}

fn char_after(c: char) -> Option<char> {
    let mut u = c as u32;
    while u < 0x10FFFF {
        u += 1;
        if let Some(x) = char::from_u32(u) {
            return Some(x);
        }
    }
    None
}

fn flip_case(s: &str, rng: &mut Rng) -> String {
    s.chars()
        .map(|c| {
            if c.is_ascii_alphabetic() && rng.chance(1, 2) {
                if c.is_ascii_lowercase() {
                    c.to_ascii_uppercase()
                } else {
                    c.to_ascii_lowercase()
                }
            } else {
                c
            }
        })
        .collect()
}

thread_local! {
    static UNICODE_SAMPLES: std::cell::RefCell<HashMap<String, Vec<char>>> = std::cell::RefCell::new(HashMap::new());
}

/// A few characters with (and one without) a Unicode property, found by scanning.
pub fn unicode_samples(name: &str) -> Vec<char> {
    UNICODE_SAMPLES.with(|m| {
        if let Some(v) = m.borrow().get(name) {
            return v.clone();
        }
        let mut v = Vec::new();
        if let Some(f) = pest::unicode::by_name(name) {
            // first, a middle and the last member, in four byte-length classes
            let mut per_len: [Vec<char>; 4] = Default::default();
            let mut u = 0u32;
            while u <= 0x10FFFF {
                if let Some(c) = char::from_u32(u) {
                    if f(c) {
                        let k = c.len_utf8() - 1;
                        if per_len[k].len() < 3 {
                            per_len[k].push(c);
                        }
                    }
                }
                // coarse stride above the BMP keeps the scan cheap
                u += if u < 0x3000 { 1 } else { 7 };
            }
            for p in per_len {
                v.extend(p);
            }
        }
        m.borrow_mut().insert(name.to_string(), v.clone());
        v
    })
}

impl Alphabet {
    pub fn of(g: &Grammar, rng: &mut Rng) -> Alphabet {
        let mut toks: Vec<String> = Vec::new();
        let add = |s: String, toks: &mut Vec<String>| {
            if !s.is_empty() && !toks.contains(&s) {
                toks.push(s);
            }
        };
        for r in &g.rules {
            r.expr.walk(&mut |n| match n {
                Node::Str(s) => add(s.clone(), &mut toks),
                Node::Insens(s) => {
                    add(s.clone(), &mut toks);
                    add(s.to_ascii_uppercase(), &mut toks);
                    add(s.to_ascii_lowercase(), &mut toks);
                }
                Node::Range(a, b) => {
                    add(a.to_string(), &mut toks);
                    add(b.to_string(), &mut toks);
                    if let Some(c) = char_before(*a) {
                        add(c.to_string(), &mut toks);
                    }
                    if let Some(c) = char_after(*b) {
                        add(c.to_string(), &mut toks);
                    }
                }
                Node::Skip(v) => v.iter().for_each(|s| add(s.clone(), &mut toks)),
                Node::Ident { name, .. } if !g.index.contains_key(name.as_str()) => match name.as_str() {
                    "NEWLINE" => {
                        add("\n".into(), &mut toks);
                        add("\r\n".into(), &mut toks);
                        add("\r".into(), &mut toks);
                    }
                    "ASCII_DIGIT" | "ASCII_NONZERO_DIGIT" | "ASCII_BIN_DIGIT" | "ASCII_OCT_DIGIT" => {
                        for c in ["0", "1", "7", "8", "9", "2"] {
                            add(c.into(), &mut toks)
                        }
                    }
                    "ASCII_HEX_DIGIT" => {
                        for c in ["0", "9", "a", "f", "g", "A", "F", "G"] {
                            add(c.into(), &mut toks)
                        }
                    }
                    "ASCII_ALPHA_LOWER" | "ASCII_ALPHA_UPPER" | "ASCII_ALPHA" | "ASCII_ALPHANUMERIC" => {
                        for c in ["a", "z", "A", "Z", "0", "_"] {
                            add(c.into(), &mut toks)
                        }
                    }
                    "ASCII" => {
                        add("\u{7f}".into(), &mut toks);
                        add("\u{80}".into(), &mut toks);
                        add("\0".into(), &mut toks);
                    }
                    "ANY" | "SOI" | "EOI" | "PEEK" | "PEEK_ALL" | "POP" | "POP_ALL" | "DROP" => {}
                    prop => {
                        for c in unicode_samples(prop) {
                            add(c.to_string(), &mut toks);
                        }
                    }
                },
                _ => {}
            });
        }
        for m in MULTIBYTE {
            add(m.to_string(), &mut toks);
        }
        add("x".into(), &mut toks);
        let mut skippable = Vec::new();
        let mut almost = Vec::new();
        for name in ["WHITESPACE", "COMMENT"] {
            if g.index.contains_key(name) {
                for _ in 0..6 {
                    let s = sentence(g, name, rng, 4);
                    if !s.is_empty() && !skippable.contains(&s) {
                        // only keep what the reference interpreter really accepts as one skip item
                        let o = crate::interp::run(g, name, &s, 0, s.len(), &crate::interp::Opts { record_trace: false, ..Default::default() });
                        if o.end == Some(s.len()) {
                            if s.chars().count() > 1 {
                                let cut: String = s.chars().take(s.chars().count() - 1).collect();
                                if !almost.contains(&cut) {
                                    almost.push(cut);
                                }
                            }
                            skippable.push(s);
                        }
                    }
                }
            }
        }
        Alphabet { tokens: toks, skippable, almost_skippable: almost }
    }

    pub fn any_token(&self, rng: &mut Rng) -> String {
        let n = self.tokens.len() + self.skippable.len();
        let i = rng.below(n.max(1));
        if i < self.tokens.len() {
            self.tokens[i].clone()
        } else if !self.skippable.is_empty() {
            self.skippable[i - self.tokens.len()].clone()
        } else {
            "x".into()
        }
    }
}

struct S<'g, 'r> {
    g: &'g Grammar,
    rng: &'r mut Rng,
    stack: Vec<String>,
    max_depth: usize,
    budget: usize,
    cost: &'r HashMap<String, usize>,
    /// Do not insert skippable text (the gap enumeration adds it itself).
    no_skip: bool,
    /// Offsets in the output right after every terminal piece.
    marks: Vec<usize>,
}

const INF: usize = 1 << 20;

fn node_cost(n: &Node, g: &Grammar, rc: &HashMap<String, usize>) -> usize {
    match n {
        Node::Str(s) | Node::Insens(s) => s.len(),
        Node::Range(..) => 1,
        Node::Ident { name, .. } => {
            if g.index.contains_key(name.as_str()) {
                *rc.get(name).unwrap_or(&INF)
            } else {
                match name.as_str() {
                    "SOI" | "EOI" | "PEEK" | "PEEK_ALL" | "POP" | "POP_ALL" | "DROP" => 0,
                    _ => 1,
                }
            }
        }
        Node::PeekSlice(..) | Node::PosPred(_) | Node::NegPred(_) | Node::Skip(_) => 0,
        Node::Seq(v) => v.iter().map(|x| node_cost(x, g, rc)).fold(0usize, |a, b| a.saturating_add(b).min(INF)),
        Node::Choice(v) => v.iter().map(|x| node_cost(x, g, rc)).min().unwrap_or(INF),
        Node::Opt(_) | Node::Rep(_) | Node::RepMax(..) => 0,
        Node::RepOnce(x) => node_cost(x, g, rc),
        Node::RepExact(x, k) | Node::RepMin(x, k) | Node::RepMinMax(x, k, _) => node_cost(x, g, rc).saturating_mul(*k as usize).min(INF),
        Node::Push(x) | Node::RestoreOnErr(x) => node_cost(x, g, rc),
    }
}

/// Minimal sentence length per rule (fixpoint); used to terminate deep derivations.
pub fn rule_costs(g: &Grammar) -> HashMap<String, usize> {
    let mut rc: HashMap<String, usize> = g.rules.iter().map(|r| (r.name.clone(), INF)).collect();
    for _ in 0..g.rules.len() + 2 {
        let mut changed = false;
        for r in &g.rules {
            let c = node_cost(&r.expr, g, &rc);
            if c < rc[&r.name] {
                rc.insert(r.name.clone(), c);
                changed = true;
            }
        }
        if !changed {
            break;
        }
    }
    rc
}

impl<'g, 'r> S<'g, 'r> {
    fn skip_text(&mut self, out: &mut String, atom_non: bool, depth: usize) {
        if self.no_skip || !atom_non || !self.rng.chance(1, 3) {
            return;
        }
        let names: Vec<&str> = ["WHITESPACE", "COMMENT"].into_iter().filter(|n| self.g.index.contains_key(*n)).collect();
        if names.is_empty() {
            return;
        }
        for _ in 0..1 + self.rng.below(2) {
            let n = *self.rng.pick(&names);
            let idx = self.g.index[n];
            let saved = std::mem::take(&mut self.stack);
            self.rule(idx, out, false, depth + 1);
            self.stack = saved;
        }
    }

    fn rule(&mut self, idx: usize, out: &mut String, atom_non: bool, depth: usize) {
        let r = &self.g.rules[idx];
        let inner = match r.kind {
            Kind::Atomic | Kind::CompoundAtomic => false,
            Kind::NonAtomic => true,
            _ => atom_non && r.name != "WHITESPACE" && r.name != "COMMENT",
        };
        self.node(&r.expr, out, inner, depth + 1);
    }

    fn rep(&mut self, x: &Node, out: &mut String, atom_non: bool, depth: usize, min: usize, max: usize) {
        let deep = depth > self.max_depth || self.budget == 0;
        let n = if deep { min } else { min + self.rng.below((max - min).min(3) + 1) };
        for i in 0..n {
            if i > 0 {
                self.skip_text(out, atom_non, depth);
            }
            self.node(x, out, atom_non, depth);
        }
    }

    fn node(&mut self, n: &Node, out: &mut String, atom_non: bool, depth: usize) {
        self.budget = self.budget.saturating_sub(1);
        let deep = depth > self.max_depth || self.budget == 0;
        if depth > self.max_depth + 30 || self.budget == 0 {
            // a rule that can only be derived through itself: give up on this branch
            return;
        }
        if matches!(n, Node::Str(_) | Node::Insens(_) | Node::Range(..) | Node::PeekSlice(..) | Node::Skip(_)) || matches!(n, Node::Ident { name, .. } if !self.g.index.contains_key(name.as_str())) {
            self.marks.push(out.len());
        }
        match n {
            Node::Str(s) => out.push_str(s),
            Node::Insens(s) => out.push_str(&flip_case(s, self.rng)),
            Node::Range(a, b) => {
                let c = match self.rng.below(4) {
                    0 => *a,
                    1 => *b,
                    _ => {
                        let (lo, hi) = (*a as u32, *b as u32);
                        char::from_u32(lo + (self.rng.next() % (hi - lo + 1) as u64) as u32).unwrap_or(*a)
                    }
                };
                out.push(c);
            }
            Node::Ident { name, .. } => {
                if let Some(idx) = self.g.index.get(name.as_str()) {
                    self.rule(*idx, out, atom_non, depth);
                    return;
                }
                match name.as_str() {
                    "ANY" => out.push_str(["a", "é", "€", "😀", "\n", " "][self.rng.below(6)]),
                    "SOI" | "EOI" => {}
                    "PEEK" => {
                        if let Some(t) = self.stack.last() {
                            out.push_str(t)
                        }
                    }
                    "POP" => {
                        if let Some(t) = self.stack.pop() {
                            out.push_str(&t)
                        }
                    }
                    "DROP" => {
                        self.stack.pop();
                    }
                    "PEEK_ALL" | "POP_ALL" => {
                        for t in self.stack.iter().rev() {
                            out.push_str(t);
                        }
                        if name == "POP_ALL" {
                            self.stack.clear();
                        }
                    }
                    "ASCII_DIGIT" => out.push(*self.rng.pick(&['0', '5', '9'])),
                    "ASCII_NONZERO_DIGIT" => out.push(*self.rng.pick(&['1', '5', '9'])),
                    "ASCII_BIN_DIGIT" => out.push(*self.rng.pick(&['0', '1'])),
                    "ASCII_OCT_DIGIT" => out.push(*self.rng.pick(&['0', '7'])),
                    "ASCII_HEX_DIGIT" => out.push(*self.rng.pick(&['0', '9', 'a', 'f', 'A', 'F'])),
                    "ASCII_ALPHA_LOWER" => out.push(*self.rng.pick(&['a', 'm', 'z'])),
                    "ASCII_ALPHA_UPPER" => out.push(*self.rng.pick(&['A', 'M', 'Z'])),
                    "ASCII_ALPHA" => out.push(*self.rng.pick(&['a', 'z', 'A', 'Z'])),
                    "ASCII_ALPHANUMERIC" => out.push(*self.rng.pick(&['a', 'Z', '0', '9'])),
                    "ASCII" => out.push(*self.rng.pick(&['\0', 'a', '\u{7f}'])),
                    "NEWLINE" => out.push_str(["\n", "\r\n", "\r"][self.rng.below(3)]),
                    prop => {
                        let v = unicode_samples(prop);
                        if !v.is_empty() {
                            out.push(*self.rng.pick(&v));
                        }
                    }
                }
            }
            Node::PeekSlice(a, b) => {
                let len = self.stack.len() as i32;
                let nm = |i: i32| if i > len { None } else if i >= 0 { Some(i) } else if len + i >= 0 { Some(len + i) } else { None };
                if let (Some(s), Some(e)) = (nm(*a), b.map_or(Some(len), nm)) {
                    if s < e {
                        for t in &self.stack[s as usize..e as usize] {
                            out.push_str(t);
                        }
                    }
                }
            }
            Node::PosPred(_) | Node::NegPred(_) => {}
            Node::Seq(v) => {
                for (i, x) in v.iter().enumerate() {
                    if i > 0 {
                        self.skip_text(out, atom_non, depth);
                    }
                    self.node(x, out, atom_non, depth);
                }
            }
            Node::Choice(v) => {
                let pick = if deep {
                    let costs: Vec<usize> = v.iter().map(|x| node_cost(x, self.g, self.cost)).collect();
                    let m = *costs.iter().min().unwrap();
                    costs.iter().position(|c| *c == m).unwrap()
                } else {
                    self.rng.below(v.len())
                };
                self.node(&v[pick], out, atom_non, depth);
            }
            Node::Opt(x) => {
                if !deep && self.rng.chance(1, 2) {
                    self.node(x, out, atom_non, depth);
                }
            }
            Node::Rep(x) => self.rep(x, out, atom_non, depth, 0, 3),
            Node::RepOnce(x) => self.rep(x, out, atom_non, depth, 1, 3),
            Node::RepExact(x, k) => self.rep(x, out, atom_non, depth, *k as usize, *k as usize),
            Node::RepMin(x, k) => self.rep(x, out, atom_non, depth, *k as usize, *k as usize + 2),
            Node::RepMax(x, k) => self.rep(x, out, atom_non, depth, 0, *k as usize),
            Node::RepMinMax(x, a, b) => self.rep(x, out, atom_non, depth, *a as usize, (*b).max(*a) as usize),
            Node::Skip(needles) => {
                for _ in 0..self.rng.below(3) {
                    out.push_str(["q", "é", " "][self.rng.below(3)]);
                }
                let _ = needles;
            }
            Node::Push(x) => {
                let mut t = String::new();
                self.node(x, &mut t, atom_non, depth);
                out.push_str(&t);
                self.stack.push(t);
            }
            Node::RestoreOnErr(x) => self.node(x, out, atom_non, depth),
        }
    }
}

thread_local! {
    static COSTS: std::cell::RefCell<HashMap<u64, HashMap<String, usize>>> = std::cell::RefCell::new(HashMap::new());
}

/// A random derivation of `rule` (not guaranteed to be accepted: predicates are not solved).
pub fn sentence(g: &Grammar, rule: &str, rng: &mut Rng, max_depth: usize) -> String {
    sentence_with_budget(g, rule, rng, max_depth, 400)
}

/// Like [`sentence`], with an explicit node budget (deeply nested sentences need a larger one).
pub fn sentence_with_budget(g: &Grammar, rule: &str, rng: &mut Rng, max_depth: usize, budget: usize) -> String {
    let key = vutil::fnv(g.text.as_bytes());
    let cost = COSTS.with(|c| c.borrow_mut().entry(key).or_insert_with(|| rule_costs(g)).clone());
    let mut s = S { g, rng, stack: Vec::new(), max_depth, budget, cost: &cost, no_skip: false, marks: Vec::new() };
    let mut out = String::new();
    let idx = g.index[rule];
    s.rule(idx, &mut out, true, 0);
    out
}

/// A derivation without any skippable text, and the offsets of the gaps between its terminals
/// (including 0 and the end).
pub fn sentence_with_gaps(g: &Grammar, rule: &str, rng: &mut Rng, max_depth: usize) -> (String, Vec<usize>) {
    let key = vutil::fnv(g.text.as_bytes());
    let cost = COSTS.with(|c| c.borrow_mut().entry(key).or_insert_with(|| rule_costs(g)).clone());
    let mut s = S { g, rng, stack: Vec::new(), max_depth, budget: 400, cost: &cost, no_skip: true, marks: Vec::new() };
    let mut out = String::new();
    let idx = g.index[rule];
    s.rule(idx, &mut out, true, 0);
    let mut gaps = std::mem::take(&mut s.marks);
    gaps.push(out.len());
    gaps.push(0);
    gaps.sort();
    gaps.dedup();
    (out, gaps)
}

/// Skippable (and almost skippable) text at every single gap of a sentence, at every pair of
/// neighbouring gaps, and at seeded subsets of the gaps: legal places (between sequence elements and
/// iterations) and illegal ones (rule start / end, inside atomic bodies) alike.
pub fn gap_inputs(g: &Grammar, rule: &str, a: &Alphabet, rng: &mut Rng, sentences: usize, subsets: usize) -> Vec<String> {
    let mut fillers: Vec<String> = a.skippable.iter().take(3).cloned().collect();
    fillers.extend(a.almost_skippable.iter().take(1).cloned());
    if fillers.is_empty() {
        fillers.push(" ".into());
    }
    let mut out = Vec::new();
    for i in 0..sentences {
        let (s, gaps) = sentence_with_gaps(g, rule, rng, 3 + i % 4);
        if s.len() > 200 || gaps.len() > 40 {
            continue;
        }
        out.push(s.clone());
        let insert = |at: &[usize], f: &str| -> String {
            let mut r = String::new();
            let mut last = 0;
            for p in at {
                r.push_str(&s[last..*p]);
                r.push_str(f);
                last = *p;
            }
            r.push_str(&s[last..]);
            r
        };
        for (k, p) in gaps.iter().enumerate() {
            let f = &fillers[k % fillers.len()];
            out.push(insert(&[*p], f));
            if let Some(q) = gaps.get(k + 1) {
                out.push(insert(&[*p, *q], &fillers[0]));
            }
        }
        for _ in 0..subsets {
            let pick: Vec<usize> = gaps.iter().copied().filter(|_| rng.chance(1, 3)).collect();
            let f = rng.pick(&fillers).clone();
            out.push(insert(&pick, &f));
        }
        // everywhere
        out.push(insert(&gaps, &fillers[0]));
    }
    out
}

/// One random edit of `s`.
pub fn mutate(s: &str, a: &Alphabet, rng: &mut Rng) -> String {
    let chars: Vec<char> = s.chars().collect();
    let n = chars.len();
    let at = rng.below(n + 1);
    let collect = |v: &[char]| v.iter().collect::<String>();
    match rng.below(9) {
        0 if n > 0 => {
            let i = rng.below(n);
            collect(&chars[..i]) + &collect(&chars[i + 1..])
        }
        1 => collect(&chars[..at]) + &a.any_token(rng) + &collect(&chars[at..]),
        2 if n > 0 => {
            let i = rng.below(n);
            collect(&chars[..i]) + &a.any_token(rng) + &collect(&chars[i + 1..])
        }
        3 if n > 0 => {
            let i = rng.below(n);
            let j = i + 1 + rng.below((n - i).min(4));
            collect(&chars[..j.min(n)]) + &collect(&chars[i..j.min(n)]) + &collect(&chars[j.min(n)..])
        }
        4 => collect(&chars[..at]),
        5 => flip_case(s, rng),
        6 => {
            let t = if !a.almost_skippable.is_empty() && rng.chance(1, 2) {
                rng.pick(&a.almost_skippable).clone()
            } else if !a.skippable.is_empty() {
                rng.pick(&a.skippable).clone()
            } else {
                " ".to_string()
            };
            collect(&chars[..at]) + &t + &collect(&chars[at..])
        }
        7 => s.to_string() + &a.any_token(rng),
        _ => {
            // neighbour of a character (range end points +-1)
            if n > 0 {
                let i = rng.below(n);
                let c = chars[i];
                let d = if rng.chance(1, 2) { char_before(c) } else { char_after(c) }.unwrap_or(c);
                collect(&chars[..i]) + &d.to_string() + &collect(&chars[i + 1..])
            } else {
                a.any_token(rng)
            }
        }
    }
}

/// All strings of up to `max_len` tokens over the first `k` tokens (plus one skippable item),
/// at most `cap` strings.
pub fn small_scope(a: &Alphabet, cap: usize) -> Vec<String> {
    let mut syms: Vec<String> = a.tokens.iter().take(6).cloned().collect();
    if let Some(s) = a.skippable.first() {
        syms.push(s.clone());
    }
    if let Some(s) = a.almost_skippable.first() {
        if syms.len() < 8 && !syms.contains(s) {
            syms.push(s.clone());
        }
    }
    let k = syms.len().max(1);
    let mut out = vec![String::new()];
    let mut len = 1;
    let mut total = 1usize;
    loop {
        let count = k.pow(len as u32);
        if total + count > cap || len > 6 {
            break;
        }
        for idx in 0..count {
            let mut s = String::new();
            let mut i = idx;
            for _ in 0..len {
                s.push_str(&syms[i % k]);
                i /= k;
            }
            out.push(s);
        }
        total += count;
        len += 1;
    }
    out
}

/// Hostile strings that do not depend on the rule.
pub fn hostile(a: &Alphabet) -> Vec<String> {
    let mut v: Vec<String> = vec![
        String::new(),
        "é".into(),
        "€".into(),
        "😀".into(),
        "\r\n".into(),
        "\n\r".into(),
        "\r".into(),
        "a😀".into(),
        "\u{0}".into(),
    ];
    for s in a.skippable.iter().take(2) {
        v.push(s.clone());
        v.push(format!("{}{}", s, s));
    }
    for s in a.almost_skippable.iter().take(2) {
        v.push(s.clone());
    }
    // multi-byte characters adjacent to literals of different byte length
    for t in a.tokens.iter().take(8) {
        for m in MULTIBYTE {
            v.push(format!("{}{}", m, t));
            v.push(format!("{}{}", t, m));
            // a literal cut in the middle, followed by a multi-byte char
            if t.chars().count() > 1 {
                let cut: String = t.chars().take(t.chars().count() - 1).collect();
                v.push(format!("{}{}", cut, m));
            }
        }
    }
    // long single lines of multi-byte characters, alone and behind an opening literal: whatever consumes
    // arbitrary text (comments, quoted strings, skip-until) gets far into a line before it fails, and
    // byte arithmetic on such a line (error messages, columns) lands inside characters
    for run in ["€".repeat(30), format!("{}😀", "é".repeat(70)), format!("{}a", "😀".repeat(20))] {
        v.push(run.clone());
        for t in a.tokens.iter().take(6) {
            v.push(format!("{}{}", t, run));
        }
    }
    v
}

/// The input set of one (grammar, rule): deduplicated, deterministic for the rng.
pub fn inputs_for(g: &Grammar, rule: &str, a: &Alphabet, rng: &mut Rng, sentences: usize, mutations: usize) -> Vec<String> {
    let mut set: BTreeSet<String> = BTreeSet::new();
    let mut order: Vec<String> = Vec::new();
    let mut push = |s: String, order: &mut Vec<String>| {
        if s.len() <= 4096 && set.insert(s.clone()) {
            order.push(s);
        }
    };
    let mut base = Vec::new();
    for i in 0..sentences {
        let s = sentence(g, rule, rng, 3 + i % 5);
        base.push(s.clone());
        push(s, &mut order);
    }
    // deeply nested sentences (recursive rules: token trees of depth 20 and more)
    for depth in [24usize, 60] {
        let s = sentence_with_budget(g, rule, rng, depth, 6000);
        if s.len() <= 400 {
            // ... and the same with a defect near the end (a failure far into a long line)
            if s.chars().count() > 40 {
                let chars: Vec<char> = s.chars().collect();
                let cut: String = chars[..chars.len() - 1].iter().collect();
                push(cut, &mut order);
                let k = chars.len() * 3 / 4;
                let mut del = chars.clone();
                del.remove(k);
                push(del.into_iter().collect(), &mut order);
                let mut rep = chars.clone();
                rep[k] = '€';
                push(rep.into_iter().collect(), &mut order);
            }
            push(s, &mut order);
        }
    }
    for i in 0..mutations {
        let b = &base[i % base.len().max(1)];
        let mut m = mutate(b, a, rng);
        if rng.chance(1, 4) {
            m = mutate(&m, a, rng);
        }
        push(m, &mut order);
    }
    // tails: skippable, almost skippable, garbage
    for b in base.iter().take(6) {
        for t in a.skippable.iter().take(2).chain(a.almost_skippable.iter().take(2)) {
            push(format!("{}{}", b, t), &mut order);
            push(format!("{}{}", t, b), &mut order);
        }
        push(format!("{}é", b), &mut order);
    }
    order
}
