//! Shapes of the generated getters (`emit_rule_reference`), computed from the expression by the
//! rules the generator documents: a mention below an optional or an alternative is wrapped in
//! `Option` (not twice in a row), below a repetition in `Vec`, several mentions of one name at
//! the same level become a tuple; sequences, PUSH and positive predicates are transparent;
//! nothing below a negative predicate is reachable.

use crate::ast::{Node, RuleDef};
use std::collections::BTreeMap;

#[derive(Clone, Debug, PartialEq)]
enum G {
    Leaf(usize),
    Keep(Box<G>),
    Opt(bool, Box<G>),
    Many(Box<G>),
    Tuple(Vec<G>),
}

impl G {
    fn flattenable(&self) -> bool {
        match self {
            G::Leaf(_) => false,
            G::Keep(i) => i.flattenable(),
            G::Opt(false, _) => true,
            G::Opt(true, i) => i.flattenable(),
            G::Many(_) | G::Tuple(_) => false,
        }
    }
    fn opt(self) -> G {
        let f = self.flattenable();
        G::Opt(f, Box::new(self))
    }
    fn merge(self, other: G) -> G {
        match (self, other) {
            (G::Tuple(mut a), G::Tuple(mut b)) => {
                a.append(&mut b);
                G::Tuple(a)
            }
            (G::Tuple(mut a), b) => {
                a.push(b);
                G::Tuple(a)
            }
            (a, G::Tuple(mut b)) => {
                let mut v = vec![a];
                v.append(&mut b);
                G::Tuple(v)
            }
            (a, b) => G::Tuple(vec![a, b]),
        }
    }
    fn shape(&self) -> String {
        match self {
            G::Leaf(_) => "L".into(),
            G::Keep(i) => i.shape(),
            G::Opt(true, i) => i.shape(),
            G::Opt(false, i) => format!("O({})", i.shape()),
            G::Many(i) => format!("V({})", i.shape()),
            G::Tuple(v) => format!("T({})", v.iter().map(|x| x.shape()).collect::<Vec<_>>().join(",")),
        }
    }
}

type Map = BTreeMap<String, G>;

fn join(mut a: Map, b: Map) -> Map {
    for (k, v) in b {
        match a.remove(&k) {
            Some(x) => {
                a.insert(k, x.merge(v));
            }
            None => {
                a.insert(k, v);
            }
        }
    }
    a
}

fn map(m: Map, f: impl Fn(G) -> G) -> Map {
    m.into_iter().map(|(k, v)| (k, f(v))).collect()
}

fn getters(n: &Node) -> Map {
    match n {
        Node::Ident { name, mention } => Map::from([(name.clone(), G::Leaf(*mention))]),
        Node::PosPred(x) | Node::Push(x) => map(getters(x), |g| G::Keep(Box::new(g))),
        Node::RestoreOnErr(x) => getters(x),
        Node::NegPred(_) => Map::new(),
        Node::Seq(v) => v.iter().fold(Map::new(), |acc, x| join(acc, map(getters(x), |g| G::Keep(Box::new(g))))),
        Node::Choice(v) => v.iter().fold(Map::new(), |acc, x| join(acc, map(getters(x), |g| g.opt()))),
        Node::Opt(x) => map(getters(x), |g| g.opt()),
        Node::Rep(x)
        | Node::RepOnce(x)
        | Node::RepExact(x, _)
        | Node::RepMin(x, _)
        | Node::RepMax(x, _)
        | Node::RepMinMax(x, _, _) => map(getters(x), |g| G::Many(Box::new(g))),
        _ => Map::new(),
    }
}

impl G {
    fn paths(&self, prefix: &mut Vec<usize>, out: &mut BTreeMap<usize, String>) {
        match self {
            G::Leaf(m) => {
                out.insert(*m, prefix.iter().map(|i| i.to_string()).collect::<Vec<_>>().join("."));
            }
            G::Keep(i) | G::Opt(_, i) | G::Many(i) => i.paths(prefix, out),
            G::Tuple(v) => {
                for (k, x) in v.iter().enumerate() {
                    prefix.push(k);
                    x.paths(prefix, out);
                    prefix.pop();
                }
            }
        }
    }
}

/// Getter name -> (mention id -> tuple-slot path, e.g. "1.0"; "" when the getter is no tuple):
/// the slot through which each mention of the rule's expression is handed out.
pub fn mention_paths(rule: &RuleDef) -> BTreeMap<String, BTreeMap<usize, String>> {
    getters(&rule.expr)
        .into_iter()
        .map(|(k, v)| {
            let mut out = BTreeMap::new();
            v.paths(&mut Vec::new(), &mut out);
            (k, out)
        })
        .collect()
}

/// Getter name -> shape string (`L` leaf, `O(..)`, `V(..)`, `T(..,..)`).
pub fn getter_shapes(rule: &RuleDef) -> BTreeMap<String, String> {
    getters(&rule.expr).into_iter().map(|(k, v)| (k, v.shape())).collect()
}

#[cfg(test)]
mod tests {
    use crate::ast::Grammar;
    #[test]
    fn shapes() {
        let g = Grammar::optimized("x = { \"x\" } r = { (x ~ \",\" ~ x)* ~ (x | \"!\" ~ x)? }").unwrap();
        let s = super::getter_shapes(g.rule("r").unwrap());
        assert_eq!(s["x"], "T(V(T(L,L)),O(T(O(L),O(L))))");
    }
}
