//! The interpreter. One evaluator, parameterised by the stack discipline.

use crate::ast::{Grammar, Kind, Node};

#[derive(Clone, Copy, Debug, PartialEq, Eq)]
pub enum Discipline {
    /// Immutable stack: every construct that does not contribute continues with the stack it
    /// started with. This is the answer the properties define where pest has none.
    Full,
    /// The real `pest::Stack`, driven with pest-typed's call pattern (snapshot per alternative /
    /// optional / iteration, clear on success, restore on failure; predicates snapshot+restore).
    /// Only used to recognise the known nested-snapshot finding; never an oracle of correctness.
    TypedLike,
}

#[derive(Clone, Debug)]
pub struct Opts {
    pub discipline: Discipline,
    /// Emulation switch: an explicit reference to WHITESPACE / COMMENT inherits the caller's
    /// atomicity (known finding) instead of being matched atomically.
    pub emu_explicit_skip_inherits: bool,
    /// Emulation switch: rules reached below WHITESPACE / COMMENT emit tokens (known finding).
    pub emu_tokens_under_skip: bool,
    /// Emulation switch: `Skip` scans the parent string beyond the window end (fixed defect; kept to
    /// recognise a regression precisely).
    pub emu_skip_ignores_window_end: bool,
    /// Raw-AST counted repetitions use pest-typed's `e (skip e)*` reading (optimizer off).
    pub typed_raw_repetition: bool,
    pub initial_stack: Vec<(usize, usize)>,
    pub step_limit: u64,
    pub record_trace: bool,
}

impl Default for Opts {
    fn default() -> Self {
        Opts {
            discipline: Discipline::Full,
            emu_explicit_skip_inherits: false,
            emu_tokens_under_skip: false,
            emu_skip_ignores_window_end: false,
            typed_raw_repetition: true,
            initial_stack: Vec::new(),
            step_limit: 20_000_000,
            record_trace: true,
        }
    }
}

#[derive(Clone, Debug, PartialEq, Eq)]
pub struct Tok {
    pub rule: String,
    pub start: usize,
    pub end: usize,
    pub children: Vec<Tok>,
}

#[derive(Clone, Debug, PartialEq, Eq)]
pub struct Attempt {
    pub rule: String,
    pub start: usize,
    pub ok: bool,
    /// Inside a negative predicate (odd nesting is not tracked; pest-typed does not either).
    pub negative: bool,
}

#[derive(Clone, Debug, PartialEq, Eq)]
pub struct Mention {
    pub mention: usize,
    pub name: String,
    pub start: usize,
    pub end: usize,
}

/// A backtrack event as pest-typed's hooks report it (TypedLike only).
#[derive(Clone, Debug, PartialEq, Eq)]
pub struct Leak {
    pub construct: &'static str,
    pub before: Vec<(usize, usize)>,
    pub after: Vec<(usize, usize)>,
}

#[derive(Clone, Debug, Default)]
pub struct Outcome {
    /// Consumed offset (absolute), None if the rule does not match.
    pub end: Option<usize>,
    pub stack: Vec<(usize, usize)>,
    pub tokens: Vec<Tok>,
    pub trace: Vec<Attempt>,
    pub mentions: Vec<Mention>,
    /// Every attempt to match stack contents (PEEK, POP, PEEK_ALL, POP_ALL, slices): where it was
    /// tried and the text that would have matched there. The workload generator uses it to build
    /// inputs that a correct implementation accepts at exactly these points ("repair").
    pub stack_probes: Vec<(usize, String)>,
    /// Structure events of the entry rule's own expression in derivation order (see DESIGN 6/C17).
    pub events: Vec<String>,
    pub steps: u64,
    /// An iteration of a repetition matched without consuming or changing the stack.
    pub zero_progress: bool,
    /// The step limit was hit (result meaningless).
    pub exhausted: bool,
    /// PEEK/POP/DROP met an empty stack, or a slice was out of range (pest would panic / fail).
    pub empty_stack_ops: u32,
    pub leaks: Vec<Leak>,
    /// Offset after the implicit trailing skip of a full parse (only meaningful when `end` is Some).
    pub after_trailing_skip: Option<usize>,
}

#[derive(Clone, Copy, PartialEq, Eq, Debug)]
enum Atom {
    Atomic,
    Compound,
    Non,
}

enum Stk {
    Full(Vec<(usize, usize)>, Vec<Vec<(usize, usize)>>),
    Pest(pest::Stack<(usize, usize)>),
}

impl Stk {
    fn dump(&self) -> Vec<(usize, usize)> {
        match self {
            Stk::Full(v, _) => v.clone(),
            Stk::Pest(s) => s[0..s.len()].to_vec(),
        }
    }
    fn len(&self) -> usize {
        match self {
            Stk::Full(v, _) => v.len(),
            Stk::Pest(s) => s.len(),
        }
    }
    fn push(&mut self, e: (usize, usize)) {
        match self {
            Stk::Full(v, _) => v.push(e),
            Stk::Pest(s) => s.push(e),
        }
    }
    fn pop(&mut self) -> Option<(usize, usize)> {
        match self {
            Stk::Full(v, _) => v.pop(),
            Stk::Pest(s) => s.pop(),
        }
    }
    fn peek(&self) -> Option<(usize, usize)> {
        match self {
            Stk::Full(v, _) => v.last().copied(),
            Stk::Pest(s) => s.peek().copied(),
        }
    }
    fn snapshot(&mut self) {
        match self {
            Stk::Full(v, saved) => saved.push(v.clone()),
            Stk::Pest(s) => s.snapshot(),
        }
    }
    fn commit(&mut self) {
        match self {
            Stk::Full(_, saved) => {
                saved.pop();
            }
            Stk::Pest(s) => s.clear_snapshot(),
        }
    }
    fn restore(&mut self) {
        match self {
            Stk::Full(v, saved) => *v = saved.pop().expect("balanced snapshots"),
            Stk::Pest(s) => s.restore(),
        }
    }
}

struct M<'g> {
    g: &'g Grammar,
    text: &'g str,
    lo: usize,
    hi: usize,
    opts: &'g Opts,
    stk: Stk,
    out: Outcome,
    /// Depth of rule frames (mentions are recorded for the entry rule only).
    depth: usize,
    mentions: Vec<Mention>,
    events: Vec<String>,
    neg: u32,
    look: u32,
}

struct Abort;

type R = Result<Option<usize>, Abort>;

fn norm(i: i32, len: usize) -> Option<usize> {
    if i > len as i32 {
        None
    } else if i >= 0 {
        Some(i as usize)
    } else {
        let r = len as i32 + i;
        if r >= 0 {
            Some(r as usize)
        } else {
            None
        }
    }
}

impl<'g> M<'g> {
    fn tick(&mut self) -> Result<(), Abort> {
        self.out.steps += 1;
        if self.out.steps > self.opts.step_limit {
            self.out.exhausted = true;
            Err(Abort)
        } else {
            Ok(())
        }
    }

    fn rest(&self, pos: usize) -> &'g str {
        &self.text[pos..self.hi]
    }

    fn match_str(&self, pos: usize, s: &str) -> Option<usize> {
        if self.rest(pos).starts_with(s) {
            Some(pos + s.len())
        } else {
            None
        }
    }

    fn match_span(&self, pos: usize, e: (usize, usize)) -> Option<usize> {
        let s = &self.text[e.0..e.1];
        self.match_str(pos, s)
    }

    fn match_char(&self, pos: usize, f: impl Fn(char) -> bool) -> Option<usize> {
        let c = self.rest(pos).chars().next()?;
        if f(c) {
            Some(pos + c.len_utf8())
        } else {
            None
        }
    }

    /// Implicit skip: `(WHITESPACE | COMMENT)*`, only outside atomic contexts.
    fn skip(&mut self, pos: usize, atom: Atom, toks: &mut Vec<Tok>) -> Result<usize, Abort> {
        if atom != Atom::Non {
            return Ok(pos);
        }
        let (ws, cm) = (self.g.whitespace, self.g.comment);
        if ws.is_none() && cm.is_none() {
            return Ok(pos);
        }
        let mut pos = pos;
        let mut items = 0usize;
        let ev_at = self.events.len();
        if self.rec() {
            self.events.push(String::new());
        }
        let r = self.skip_loop(&mut pos, &mut items, ws, cm, toks);
        if self.rec() && ev_at < self.events.len() {
            self.events[ev_at] = format!("G{}", items);
        }
        r.map(|_| pos)
    }

    fn ident_event(&self, name: &str, start: usize, end: usize) -> String {
        let text = &self.text[start..end];
        if let Some(r) = self.g.rule(name) {
            return if r.kind == Kind::Silent { format!("Q:{}", name) } else { format!("N:{}:{}:{}", name, start, end) };
        }
        match name {
            "ANY" => format!("A:{}", text),
            "SOI" => "SOI".into(),
            "EOI" => format!("EOI:{}", start),
            "NEWLINE" => format!("NL:{}", match text { "\r\n" => "CRLF", "\n" => "LF", _ => "CR" }),
            "PEEK" | "POP" | "PEEK_ALL" | "POP_ALL" => format!("P:{}", text),
            "DROP" => "D".into(),
            n if n.starts_with("ASCII") => format!("C:{}", text),
            _ => format!("X:{}", text),
        }
    }

    fn probe(&mut self, pos: usize, entries: &[(usize, usize)]) {
        if self.opts.record_trace && self.out.stack_probes.len() < 64 {
            let text: String = entries.iter().map(|e| &self.text[e.0..e.1]).collect();
            self.out.stack_probes.push((pos, text));
        }
    }

    fn rec(&self) -> bool {
        self.depth == 1 && self.neg == 0
    }

    fn ev(&mut self, e: String) {
        if self.rec() {
            self.events.push(e);
        }
    }

    fn skip_loop(&mut self, pos_io: &mut usize, items: &mut usize, ws: Option<usize>, cm: Option<usize>, toks: &mut Vec<Tok>) -> Result<(), Abort> {
        let mut pos = *pos_io;
        loop {
            let mut advanced = false;
            for idx in [ws, cm].into_iter().flatten() {
                // each skip rule is tried like an iteration of a repetition
                self.stk.snapshot();
                let before = toks.len();
                let mbefore = self.mentions.len();
                self.depth += 1; // mentions below the implicit skip are not the entry rule's
                let r = self.call_rule(idx, pos, Atom::Non, toks, true);
                self.depth -= 1;
                match r? {
                    Some(p) => {
                        self.stk.commit();
                        if p == pos {
                            // a non-progressing skip rule (pest rejects those grammars)
                            self.out.zero_progress = true;
                            *pos_io = pos;
                            return Ok(());
                        }
                        pos = p;
                        *items += 1;
                        advanced = true;
                        break;
                    }
                    None => {
                        self.stk.restore();
                        toks.truncate(before);
                        self.mentions.truncate(mbefore);
                    }
                }
            }
            if !advanced {
                *pos_io = pos;
                return Ok(());
            }
        }
    }

    fn record(&mut self, rule: &str, start: usize, ok: bool) {
        if self.opts.record_trace && self.out.trace.len() < 100_000 {
            self.out.trace.push(Attempt { rule: rule.to_string(), start, ok, negative: self.neg > 0 });
        }
    }

    /// Call a user rule. `implicit` marks the calls made by the implicit skip.
    fn call_rule(&mut self, idx: usize, pos: usize, atom: Atom, toks: &mut Vec<Tok>, implicit: bool) -> R {
        self.tick()?;
        if self.depth > 3000 {
            // runaway recursion (e.g. left recursion through a predicate, which pest's validator lets pass)
            self.out.exhausted = true;
            return Err(Abort);
        }
        let g = self.g;
        let rule = &g.rules[idx];
        let is_skip_rule = rule.name == "WHITESPACE" || rule.name == "COMMENT";
        // atomicity inside the rule body
        let mut inner = match rule.kind {
            Kind::Atomic => Atom::Atomic,
            Kind::CompoundAtomic => Atom::Compound,
            Kind::NonAtomic => Atom::Non,
            Kind::Normal | Kind::Silent => atom,
        };
        // pest: `$` and `!` rules switch the atomicity before the token is opened, `@` rules after
        let entry = match rule.kind {
            Kind::CompoundAtomic => Atom::Compound,
            Kind::NonAtomic => Atom::Non,
            _ => atom,
        };
        if is_skip_rule && matches!(rule.kind, Kind::Normal | Kind::Silent) {
            // pest forces WHITESPACE / COMMENT to be atomic
            if implicit || !self.opts.emu_explicit_skip_inherits {
                inner = if self.opts.emu_tokens_under_skip { Atom::Compound } else { Atom::Atomic };
            }
        }
        let emits = rule.kind != Kind::Silent && self.look == 0 && entry != Atom::Atomic;
        let mut children = Vec::new();
        self.depth += 1;
        let r = self.eval(&rule.expr, pos, inner, &mut children);
        self.depth -= 1;
        let r = r?;
        self.record(&rule.name, pos, r.is_some());
        if let Some(end) = r {
            if emits {
                toks.push(Tok { rule: rule.name.clone(), start: pos, end, children });
            } else if self.look == 0 {
                // silent rule, or a rule whose own token is suppressed by an atomic context: pest's
                // token queue is flat, so whatever was emitted below stays (under the next open token)
                toks.append(&mut children);
            }
        }
        Ok(r)
    }

    fn builtin(&mut self, name: &str, pos: usize, atom: Atom, toks: &mut Vec<Tok>) -> R {
        let r = match name {
            "ANY" => self.match_char(pos, |_| true),
            "SOI" => (pos == self.lo).then_some(pos),
            "EOI" => {
                let ok = pos == self.hi;
                self.record("EOI", pos, ok);
                if ok && self.look == 0 && atom != Atom::Atomic {
                    toks.push(Tok { rule: "EOI".into(), start: pos, end: pos, children: vec![] });
                }
                ok.then_some(pos)
            }
            "PEEK" => match self.stk.peek() {
                Some(e) => {
                    self.probe(pos, &[e]);
                    self.match_span(pos, e)
                }
                None => {
                    self.out.empty_stack_ops += 1;
                    None
                }
            },
            "POP" => match self.opts.discipline {
                Discipline::Full => match self.stk.peek() {
                    Some(e) => {
                        self.probe(pos, &[e]);
                        let r = self.match_span(pos, e);
                        if r.is_some() {
                            self.stk.pop();
                        }
                        r
                    }
                    None => {
                        self.out.empty_stack_ops += 1;
                        None
                    }
                },
                Discipline::TypedLike => match self.stk.pop() {
                    Some(e) => self.match_span(pos, e),
                    None => {
                        self.out.empty_stack_ops += 1;
                        None
                    }
                },
            },
            "DROP" => match self.stk.pop() {
                Some(_) => Some(pos),
                None => {
                    self.out.empty_stack_ops += 1;
                    None
                }
            },
            "PEEK_ALL" | "POP_ALL" => {
                let entries = self.stk.dump();
                let rev: Vec<(usize, usize)> = entries.iter().rev().copied().collect();
                self.probe(pos, &rev);
                let mut p = Some(pos);
                for e in entries.iter().rev() {
                    p = p.and_then(|p| self.match_span(p, *e));
                }
                if p.is_some() && name == "POP_ALL" {
                    while self.stk.pop().is_some() {}
                }
                p
            }
            "ASCII_DIGIT" => self.match_char(pos, |c| c.is_ascii_digit()),
            "ASCII_NONZERO_DIGIT" => self.match_char(pos, |c| ('1'..='9').contains(&c)),
            "ASCII_BIN_DIGIT" => self.match_char(pos, |c| c == '0' || c == '1'),
            "ASCII_OCT_DIGIT" => self.match_char(pos, |c| ('0'..='7').contains(&c)),
            "ASCII_HEX_DIGIT" => self.match_char(pos, |c| c.is_ascii_hexdigit()),
            "ASCII_ALPHA_LOWER" => self.match_char(pos, |c| c.is_ascii_lowercase()),
            "ASCII_ALPHA_UPPER" => self.match_char(pos, |c| c.is_ascii_uppercase()),
            "ASCII_ALPHA" => self.match_char(pos, |c| c.is_ascii_alphabetic()),
            "ASCII_ALPHANUMERIC" => self.match_char(pos, |c| c.is_ascii_alphanumeric()),
            "ASCII" => self.match_char(pos, |c| c.is_ascii()),
            "NEWLINE" => self
                .match_str(pos, "\r\n")
                .or_else(|| self.match_str(pos, "\n"))
                .or_else(|| self.match_str(pos, "\r")),
            other => match pest::unicode::by_name(other) {
                Some(f) => self.match_char(pos, |c| f(c)),
                None => panic!("refpeg: unknown rule {:?}", other),
            },
        };
        Ok(r)
    }

    fn leak_check(&mut self, construct: &'static str, before: &Option<Vec<(usize, usize)>>) {
        if let Some(b) = before {
            let after = self.stk.dump();
            if *b != after {
                self.out.leaks.push(Leak { construct, before: b.clone(), after });
            }
        }
    }

    fn before(&self) -> Option<Vec<(usize, usize)>> {
        match self.opts.discipline {
            Discipline::TypedLike => Some(self.stk.dump()),
            Discipline::Full => None,
        }
    }

    /// One attempt of something that must leave no trace when it fails.
    fn attempt(&mut self, construct: &'static str, node: &'g Node, pos: usize, atom: Atom, toks: &mut Vec<Tok>) -> R {
        let before = self.before();
        self.stk.snapshot();
        let tl = toks.len();
        let ml = self.mentions.len();
        let el = self.events.len();
        let r = self.eval(node, pos, atom, toks)?;
        match r {
            Some(_) => self.stk.commit(),
            None => {
                self.stk.restore();
                toks.truncate(tl);
                self.mentions.truncate(ml);
                self.events.truncate(el);
                self.leak_check(construct, &before);
            }
        }
        Ok(r)
    }

    /// `e` preceded by the implicit skip, as one iteration (skip given back when `e` fails).
    fn iteration(&mut self, node: &'g Node, pos: usize, atom: Atom, toks: &mut Vec<Tok>, with_skip: bool) -> R {
        let before = self.before();
        self.stk.snapshot();
        let tl = toks.len();
        let ml = self.mentions.len();
        let el = self.events.len();
        let p = if with_skip { self.skip(pos, atom, toks)? } else { pos };
        let r = self.eval(node, p, atom, toks)?;
        match r {
            Some(_) => self.stk.commit(),
            None => {
                self.stk.restore();
                toks.truncate(tl);
                self.mentions.truncate(ml);
                self.events.truncate(el);
                self.leak_check("iteration", &before);
            }
        }
        Ok(r)
    }

    /// Greedy `e (skip e)*` bounded by `max`, returns (count, end).
    fn repeat(&mut self, node: &'g Node, pos: usize, atom: Atom, toks: &mut Vec<Tok>, max: Option<u32>, first_with_skip: bool) -> Result<(u32, usize), Abort> {
        let mut pos = pos;
        let mut n = 0u32;
        loop {
            if let Some(m) = max {
                if n >= m {
                    break;
                }
            }
            let stack_before = self.stk.dump();
            match self.iteration(node, pos, atom, toks, n > 0 || first_with_skip)? {
                Some(p) => {
                    if p == pos && self.stk.dump() == stack_before && max.is_none() {
                        self.out.zero_progress = true;
                        n += 1;
                        break;
                    }
                    pos = p;
                    n += 1;
                }
                None => break,
            }
        }
        Ok((n, pos))
    }

    fn eval(&mut self, node: &'g Node, pos: usize, atom: Atom, toks: &mut Vec<Tok>) -> R {
        self.tick()?;
        match node {
            Node::Str(s) => {
                let r = self.match_str(pos, s);
                if r.is_some() {
                    self.ev("S".into());
                }
                Ok(r)
            }
            Node::Insens(s) => {
                let rest = self.rest(pos);
                let n = s.len();
                Ok(match rest.get(..n) {
                    Some(p) if p.eq_ignore_ascii_case(s) => {
                        self.ev(format!("I:{}", p));
                        Some(pos + n)
                    }
                    _ => None,
                })
            }
            Node::Range(a, b) => {
                let r = self.match_char(pos, |c| *a <= c && c <= *b);
                if let Some(e) = r {
                    self.ev(format!("R:{}", &self.text[pos..e]));
                }
                Ok(r)
            }
            Node::Ident { name, mention } => {
                let r = match self.g.index.get(name.as_str()) {
                    Some(idx) => self.call_rule(*idx, pos, atom, toks, false)?,
                    None => self.builtin(name, pos, atom, toks)?,
                };
                if let Some(end) = r {
                    if self.depth == 1 && self.neg == 0 {
                        self.mentions.push(Mention { mention: *mention, name: name.clone(), start: pos, end });
                        let e = self.ident_event(name, pos, end);
                        self.events.push(e);
                    }
                }
                Ok(r)
            }
            Node::PeekSlice(a, b) => {
                let len = self.stk.len();
                let range = match (norm(*a, len), b.map_or(Some(len), |e| norm(e, len))) {
                    (Some(s), Some(e)) => s..e,
                    _ => {
                        self.out.empty_stack_ops += 1;
                        return Ok(None);
                    }
                };
                if range.end <= range.start {
                    self.ev("K".into());
                    return Ok(Some(pos));
                }
                let entries = self.stk.dump();
                self.probe(pos, &entries[range.clone()]);
                let mut p = Some(pos);
                for e in &entries[range] {
                    p = p.and_then(|p| self.match_span(p, *e));
                }
                if p.is_some() {
                    self.ev("K".into());
                }
                Ok(p)
            }
            Node::PosPred(x) | Node::NegPred(x) => {
                let positive = matches!(node, Node::PosPred(_));
                let before = self.before();
                self.stk.snapshot();
                self.look += 1;
                if !positive {
                    self.neg += 1;
                }
                let ml = self.mentions.len();
                let el = self.events.len();
                let mut scratch = Vec::new();
                let r = self.eval(x, pos, atom, &mut scratch);
                if !positive {
                    self.neg -= 1;
                }
                self.look -= 1;
                self.stk.restore();
                let r = r?;
                if !positive || r.is_none() {
                    self.mentions.truncate(ml);
                    self.events.truncate(el);
                }
                self.leak_check(if positive { "positive" } else { "negative" }, &before);
                Ok(if positive == r.is_some() { Some(pos) } else { None })
            }
            Node::Seq(v) => {
                let mut p = pos;
                for (i, x) in v.iter().enumerate() {
                    if i > 0 {
                        p = self.skip(p, atom, toks)?;
                    }
                    match self.eval(x, p, atom, toks)? {
                        Some(n) => p = n,
                        None => return Ok(None),
                    }
                }
                Ok(Some(p))
            }
            Node::Choice(v) => {
                for (i, x) in v.iter().enumerate() {
                    let at = self.events.len();
                    self.ev(format!("C{}/{}", i, v.len()));
                    if let Some(p) = self.attempt("choice", x, pos, atom, toks)? {
                        return Ok(Some(p));
                    }
                    self.events.truncate(at);
                }
                Ok(None)
            }
            Node::Opt(x) => {
                let at = self.events.len();
                self.ev("O1".into());
                match self.attempt("optional", x, pos, atom, toks)? {
                    Some(p) => Ok(Some(p)),
                    None => {
                        self.events.truncate(at);
                        self.ev("O0".into());
                        Ok(Some(pos))
                    }
                }
            }
            Node::Rep(x) => {
                let at = self.events.len();
                self.ev(String::new());
                let (n, p) = self.repeat(x, pos, atom, toks, None, false)?;
                if self.rec() && at < self.events.len() {
                    self.events[at] = format!("*{}", n);
                }
                Ok(Some(p))
            }
            Node::RepOnce(x) => {
                let at = self.events.len();
                self.ev(String::new());
                let (n, p) = self.repeat(x, pos, atom, toks, None, false)?;
                if n >= 1 {
                    if self.rec() && at < self.events.len() {
                        self.events[at] = format!("*{}", n);
                    }
                    Ok(Some(p))
                } else {
                    self.events.truncate(at);
                    Ok(None)
                }
            }
            Node::RepMin(x, min) => {
                let (n, p) = self.repeat(x, pos, atom, toks, None, false)?;
                Ok((n >= *min).then_some(p))
            }
            Node::RepExact(x, k) => {
                let (n, p) = self.repeat(x, pos, atom, toks, Some(*k), false)?;
                Ok((n >= *k).then_some(p))
            }
            Node::RepMax(x, max) => Ok(Some(self.repeat(x, pos, atom, toks, Some(*max), false)?.1)),
            Node::RepMinMax(x, min, max) => {
                let (n, p) = self.repeat(x, pos, atom, toks, Some(*max), false)?;
                Ok((n >= *min).then_some(p))
            }
            Node::Skip(needles) => {
                let limit = if self.opts.emu_skip_ignores_window_end { self.text.len() } else { self.hi };
                let mut p = pos;
                while p < self.hi {
                    if self.text.is_char_boundary(p) {
                        let rest = &self.text.as_bytes()[p..limit];
                        if needles.iter().any(|n| rest.starts_with(n.as_bytes())) {
                            self.ev(format!("U:{}", &self.text[pos..p]));
                            return Ok(Some(p));
                        }
                    }
                    p += 1;
                }
                Ok(Some(self.hi))
            }
            .map(|r: Option<usize>| {
                if let Some(e) = r {
                    self.ev(format!("U:{}", &self.text[pos..e]));
                }
                r
            }),
            Node::Push(x) => {
                let r = self.eval(x, pos, atom, toks)?;
                if let Some(end) = r {
                    self.stk.push((pos, end));
                }
                Ok(r)
            }
            Node::RestoreOnErr(x) => self.eval(x, pos, atom, toks),
        }
    }
}

/// Run `rule` on the window `text[lo..hi]`.
pub fn run(g: &Grammar, rule: &str, text: &str, lo: usize, hi: usize, opts: &Opts) -> Outcome {
    let stk = match opts.discipline {
        Discipline::Full => Stk::Full(opts.initial_stack.clone(), Vec::new()),
        Discipline::TypedLike => {
            let mut s = pest::Stack::new();
            for e in &opts.initial_stack {
                s.push(*e);
            }
            Stk::Pest(s)
        }
    };
    let mut m = M {
        g,
        text,
        lo,
        hi,
        opts,
        stk,
        out: Outcome::default(),
        depth: 0,
        mentions: Vec::new(),
        events: Vec::new(),
        neg: 0,
        look: 0,
    };
    let idx = *g.index.get(rule).unwrap_or_else(|| panic!("refpeg: no rule {:?}", rule));
    let mut toks = Vec::new();
    let r = m.call_rule(idx, lo, Atom::Non, &mut toks, false);
    let mut out = std::mem::take(&mut m.out);
    if let Ok(Some(end)) = r {
        out.end = Some(end);
        out.tokens = toks;
        out.mentions = std::mem::take(&mut m.mentions);
        out.events = std::mem::take(&mut m.events);
        out.stack = m.stk.dump();
        // trailing skip of the full-parse entry points: none for @ and $ entry rules
        let kind = g.rules[idx].kind;
        let after = if matches!(kind, Kind::Atomic | Kind::CompoundAtomic) {
            end
        } else {
            let mut scratch = Vec::new();
            m.depth = 5; // never record mentions here
            m.skip(end, Atom::Non, &mut scratch).unwrap_or(end)
        };
        out.after_trailing_skip = Some(after);
    } else {
        out.stack = m.stk.dump();
    }
    out
}

/// The implicit skip alone, from `pos` (used for the trailing skip of full parses).
pub fn skip_only(g: &Grammar, text: &str, lo: usize, hi: usize, pos: usize) -> usize {
    let opts = Opts { record_trace: false, ..Opts::default() };
    let mut m = M {
        g,
        text,
        lo,
        hi,
        opts: &opts,
        stk: Stk::Full(Vec::new(), Vec::new()),
        out: Outcome::default(),
        depth: 5,
        mentions: Vec::new(),
        events: Vec::new(),
        neg: 0,
        look: 0,
    };
    let mut scratch = Vec::new();
    m.skip(pos, Atom::Non, &mut scratch).unwrap_or(pos)
}
