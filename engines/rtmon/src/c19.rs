//! C19: counted repetition and the raw combinators, instantiated directly from the runtime crate,
//! against a list-level model written from the property statement.

use pest_typed::choices::Choice2;
use pest_typed::predefined_node::{AtomicRepeat, Push, Rep, RepExact, RepMin, RepMinMax, RepOnce, Skip, SkipChar, Str, POP};
use pest_typed::StringArrayWrapper;
use pest_typed::tracker::Tracker;
use pest_typed::{AsInput, Input, Stack, StringWrapper, TypedNode};
use serde_json::json;
use std::fmt::Debug;
use std::panic::{catch_unwind, AssertUnwindSafe};
use vutil::{Collector, Local};

#[derive(Clone, Copy, Debug, PartialEq, Eq, Hash, PartialOrd, Ord)]
pub enum R {
    EOI,
}

macro_rules! wrapper {
    ($name:ident, $s:literal) => {
        #[derive(Clone, Debug, PartialEq, Eq, Hash)]
        pub struct $name;
        impl StringWrapper for $name {
            const CONTENT: &'static str = $s;
        }
    };
}
wrapper!(X, "x");
wrapper!(YY, "yy");
wrapper!(SP, " ");

/// The skipped type: `" "*`.
pub type Ign<'i> = AtomicRepeat<Str<SP>>;

pub trait Elem {
    type Node<'i>: TypedNode<'i, R> + Debug;
    /// Offset after one element at `pos`, if it matches.
    fn model(s: &str, pos: usize) -> Option<usize>;
}

pub struct ElemStr;
impl Elem for ElemStr {
    type Node<'i> = Str<X>;
    fn model(s: &str, pos: usize) -> Option<usize> {
        s[pos..].starts_with('x').then_some(pos + 1)
    }
}
pub struct ElemChoice;
impl Elem for ElemChoice {
    type Node<'i> = Choice2<Str<X>, Str<YY>>;
    fn model(s: &str, pos: usize) -> Option<usize> {
        if s[pos..].starts_with('x') {
            Some(pos + 1)
        } else if s[pos..].starts_with("yy") {
            Some(pos + 2)
        } else {
            None
        }
    }
}
pub struct ElemNested;
impl Elem for ElemNested {
    /// one or two `x`, greedy, no skipping inside
    type Node<'i> = RepMinMax<Str<X>, Ign<'i>, 0, 1, 2>;
    fn model(s: &str, pos: usize) -> Option<usize> {
        let n = s[pos..].bytes().take_while(|b| *b == b'x').count().min(2);
        (n >= 1).then_some(pos + n)
    }
}
pub struct ElemStack;
impl Elem for ElemStack {
    /// PUSH("x") ~ POP, i.e. "xx" leaving the stack as it was
    type Node<'i> = (Push<Str<X>>, POP<'i>);
    fn model(s: &str, pos: usize) -> Option<usize> {
        s[pos..].starts_with("xx").then_some(pos + 2)
    }
}

/// Elements that can match without consuming (only used under an upper bound, where repeating an
/// empty match is finite: the statement's "stops at MAX" then decides the count).
pub struct ElemOpt;
impl Elem for ElemOpt {
    type Node<'i> = Option<Str<X>>;
    fn model(s: &str, pos: usize) -> Option<usize> {
        Some(if s[pos..].starts_with('x') { pos + 1 } else { pos })
    }
}
pub struct ElemRep02;
impl Elem for ElemRep02 {
    /// zero to two `x`, greedy
    type Node<'i> = RepMinMax<Str<X>, Ign<'i>, 0, 0, 2>;
    fn model(s: &str, pos: usize) -> Option<usize> {
        Some(pos + s[pos..].bytes().take_while(|b| *b == b'x').count().min(2))
    }
}

fn skip_ws(s: &str, pos: usize) -> usize {
    pos + s[pos..].bytes().take_while(|b| *b == b' ').count()
}

/// Greedy bounded repetition as the property states it.
pub fn model_rep<E: Elem>(s: &str, min: usize, max: Option<usize>, skip: bool) -> Option<(usize, usize)> {
    let mut n = 0usize;
    let mut p = 0usize;
    loop {
        if let Some(m) = max {
            if n >= m {
                break;
            }
        }
        // a skip is only kept when an iteration follows it
        let q = if n > 0 && skip { skip_ws(s, p) } else { p };
        match E::model(s, q) {
            Some(e) => {
                // a non-consuming element would repeat forever; none of the elements is empty
                p = e;
                n += 1;
            }
            None => break,
        }
    }
    let within = n >= min && max.map_or(true, |m| n <= m);
    within.then_some((p, n))
}

#[derive(Clone, Debug, PartialEq)]
pub struct Obs {
    pub parse: Result<Option<(usize, usize, usize)>, String>,
    pub check: Result<Option<(usize, usize)>, String>,
}

fn run_node<'i, T: TypedNode<'i, R>>(s: &'i str, count: fn(&T) -> usize) -> Obs {
    let parse = catch_unwind(AssertUnwindSafe(|| {
        let input = s.as_input();
        let mut stack = Stack::new();
        let mut tracker = Tracker::new(input);
        T::try_parse_partial_with(input, &mut stack, &mut tracker).map(|(i, n)| (i.byte_offset(), count(&n), stack.len()))
    }))
    .map_err(|e| vutil::panic_text(&*e));
    let check = catch_unwind(AssertUnwindSafe(|| {
        let input = s.as_input();
        let mut stack = Stack::new();
        let mut tracker = Tracker::new(input);
        T::try_check_partial_with(input, &mut stack, &mut tracker).map(|i| (i.byte_offset(), stack.len()))
    }))
    .map_err(|e| vutil::panic_text(&*e));
    Obs { parse, check }
}

pub struct Inst {
    pub kind: &'static str,
    pub desc: String,
    pub run: fn(&str) -> Obs,
    pub model: fn(&str) -> Option<(usize, usize)>,
    pub bounds: Option<(usize, Option<usize>)>,
    pub multibyte: bool,
}

pub fn inst_minmax<E: Elem, const SKIP: usize, const MIN: usize, const MAX: usize>(e: &str) -> Inst {
    fn run<E: Elem, const SKIP: usize, const MIN: usize, const MAX: usize>(s: &str) -> Obs {
        run_node::<RepMinMax<E::Node<'_>, Ign<'_>, SKIP, MIN, MAX>>(s, |n| n.content.len())
    }
    fn model<E: Elem, const SKIP: usize, const MIN: usize, const MAX: usize>(s: &str) -> Option<(usize, usize)> {
        model_rep::<E>(s, MIN, Some(MAX), SKIP == 1)
    }
    Inst { kind: "RepMinMax", desc: format!("RepMinMax<{}, SKIP={}, MIN={}, MAX={}>", e, SKIP, MIN, MAX), run: run::<E, SKIP, MIN, MAX>, model: model::<E, SKIP, MIN, MAX>, bounds: Some((MIN, Some(MAX))), multibyte: false }
}

pub fn inst_min<E: Elem, const SKIP: usize, const MIN: usize>(e: &str) -> Inst {
    fn run<E: Elem, const SKIP: usize, const MIN: usize>(s: &str) -> Obs {
        run_node::<RepMin<E::Node<'_>, Ign<'_>, SKIP, MIN>>(s, |n| n.content.len())
    }
    fn model<E: Elem, const SKIP: usize, const MIN: usize>(s: &str) -> Option<(usize, usize)> {
        model_rep::<E>(s, MIN, None, SKIP == 1)
    }
    Inst { kind: "RepMin", desc: format!("RepMin<{}, SKIP={}, MIN={}>", e, SKIP, MIN), run: run::<E, SKIP, MIN>, model: model::<E, SKIP, MIN>, bounds: Some((MIN, None)), multibyte: false }
}

pub fn inst_exact<E: Elem, const SKIP: usize, const N: usize>(e: &str) -> Inst {
    fn run<E: Elem, const SKIP: usize, const N: usize>(s: &str) -> Obs {
        run_node::<RepExact<E::Node<'_>, Ign<'_>, SKIP, N>>(s, |n| n.content.len())
    }
    fn model<E: Elem, const SKIP: usize, const N: usize>(s: &str) -> Option<(usize, usize)> {
        model_rep::<E>(s, N, Some(N), SKIP == 1)
    }
    Inst { kind: "RepExact", desc: format!("RepExact<{}, SKIP={}, TIMES={}>", e, SKIP, N), run: run::<E, SKIP, N>, model: model::<E, SKIP, N>, bounds: Some((N, Some(N))), multibyte: false }
}

pub fn inst_rep<E: Elem, const SKIP: usize>(e: &str) -> Inst {
    fn run<E: Elem, const SKIP: usize>(s: &str) -> Obs {
        run_node::<Rep<E::Node<'_>, Ign<'_>, SKIP>>(s, |n| n.content.len())
    }
    fn model<E: Elem, const SKIP: usize>(s: &str) -> Option<(usize, usize)> {
        model_rep::<E>(s, 0, None, SKIP == 1)
    }
    Inst { kind: "Rep", desc: format!("Rep<{}, SKIP={}>", e, SKIP), run: run::<E, SKIP>, model: model::<E, SKIP>, bounds: Some((0, None)), multibyte: false }
}

pub fn inst_once<E: Elem, const SKIP: usize>(e: &str) -> Inst {
    fn run<E: Elem, const SKIP: usize>(s: &str) -> Obs {
        run_node::<RepOnce<E::Node<'_>, Ign<'_>, SKIP>>(s, |n| n.content.len())
    }
    fn model<E: Elem, const SKIP: usize>(s: &str) -> Option<(usize, usize)> {
        model_rep::<E>(s, 1, None, SKIP == 1)
    }
    Inst { kind: "RepOnce", desc: format!("RepOnce<{}, SKIP={}>", e, SKIP), run: run::<E, SKIP>, model: model::<E, SKIP>, bounds: Some((1, None)), multibyte: false }
}

pub fn inst_array<E: Elem, const N: usize>(e: &str) -> Inst {
    fn run<E: Elem, const N: usize>(s: &str) -> Obs {
        run_node::<[E::Node<'_>; N]>(s, |n| n.len())
    }
    fn model<E: Elem, const N: usize>(s: &str) -> Option<(usize, usize)> {
        let mut p = 0;
        for _ in 0..N {
            p = E::model(s, p)?;
        }
        Some((p, N))
    }
    Inst { kind: "array", desc: format!("[{}; {}]", e, N), run: run::<E, N>, model: model::<E, N>, bounds: None, multibyte: false }
}

pub fn inst_option<E: Elem>(e: &str) -> Inst {
    fn run<E: Elem>(s: &str) -> Obs {
        run_node::<Option<E::Node<'_>>>(s, |n| n.is_some() as usize)
    }
    fn model<E: Elem>(s: &str) -> Option<(usize, usize)> {
        Some(match E::model(s, 0) {
            Some(p) => (p, 1),
            None => (0, 0),
        })
    }
    Inst { kind: "Option", desc: format!("Option<{}>", e), run: run::<E>, model: model::<E>, bounds: None, multibyte: false }
}

pub fn inst_atomic_repeat<E: Elem>(e: &str) -> Inst {
    fn run<E: Elem>(s: &str) -> Obs {
        run_node::<AtomicRepeat<E::Node<'_>>>(s, |n| n.content.len())
    }
    fn model<E: Elem>(s: &str) -> Option<(usize, usize)> {
        model_rep::<E>(s, 0, None, false)
    }
    Inst { kind: "AtomicRepeat", desc: format!("AtomicRepeat<{}>", e), run: run::<E>, model: model::<E>, bounds: None, multibyte: false }
}

pub fn inst_pair<A: Elem, B: Elem>(a: &str, b: &str) -> Inst {
    fn run<A: Elem, B: Elem>(s: &str) -> Obs {
        run_node::<(A::Node<'_>, B::Node<'_>)>(s, |_| 2)
    }
    fn model<A: Elem, B: Elem>(s: &str) -> Option<(usize, usize)> {
        let p = A::model(s, 0)?;
        Some((B::model(s, p)?, 2))
    }
    Inst { kind: "pair", desc: format!("({}, {})", a, b), run: run::<A, B>, model: model::<A, B>, bounds: None, multibyte: false }
}

pub fn inst_skipchar<const N: usize>() -> Inst {
    fn run<const N: usize>(s: &str) -> Obs {
        run_node::<SkipChar<'_, N>>(s, |n| n.span.as_str().chars().count())
    }
    fn model<const N: usize>(s: &str) -> Option<(usize, usize)> {
        let mut it = s.char_indices();
        for _ in 0..N {
            it.next()?;
        }
        Some((it.next().map(|(i, _)| i).unwrap_or(s.len()), N))
    }
    Inst { kind: "SkipChar", desc: format!("SkipChar<{}>", N), run: run::<N>, model: model::<N>, bounds: None, multibyte: true }
}

macro_rules! needles {
    ($name:ident, [$($s:literal),*]) => {
        #[derive(Clone, Debug, PartialEq)]
        pub struct $name;
        impl StringArrayWrapper for $name {
            const CONTENT: &'static [&'static str] = &[$($s),*];
        }
    };
}
needles!(N1, ["x"]);
needles!(N2, ["xy", "y"]);
needles!(N3, ["y", "xy"]);
needles!(N4, ["xy", "yx"]);
needles!(N5, ["é", "xyx"]);
needles!(N6, ["xyx", " "]);

/// The skip-until node: stops in front of the earliest occurrence of any needle, else at the end;
/// it never fails.
pub fn inst_skip<S: StringArrayWrapper + 'static>(name: &str) -> Inst {
    fn run<S: StringArrayWrapper + 'static>(s: &str) -> Obs {
        run_node::<Skip<'_, S>>(s, |n| n.span.as_str().len())
    }
    fn model<S: StringArrayWrapper>(s: &str) -> Option<(usize, usize)> {
        let at = (0..s.len()).filter(|i| s.is_char_boundary(*i)).find(|i| S::CONTENT.iter().any(|n| s[*i..].starts_with(n))).unwrap_or(s.len());
        Some((at, at))
    }
    Inst { kind: "Skip", desc: format!("Skip<{}>", name), run: run::<S>, model: model::<S>, bounds: None, multibyte: name.contains('é') }
}

pub fn all_skips(emit: &mut dyn FnMut(Inst)) {
    emit(inst_skip::<N1>("[x]"));
    emit(inst_skip::<N2>("[xy,y]"));
    emit(inst_skip::<N3>("[y,xy]"));
    emit(inst_skip::<N4>("[xy,yx]"));
    emit(inst_skip::<N5>("[é,xyx]"));
    emit(inst_skip::<N6>("[xyx, ]"));
}

fn inputs(alphabet: &[&str], max_len: usize) -> Vec<String> {
    let mut v = Vec::new();
    let mut s = String::new();
    for len in 0..=max_len {
        for idx in 0..vutil::pow(alphabet.len(), len) {
            vutil::nth_string(alphabet, len, idx, &mut s);
            v.push(s.clone());
        }
    }
    v
}

pub fn run(col: &Collector, thorough: bool, jobs: usize) -> serde_json::Value {
    let max_len = if thorough { 9 } else { 8 };
    let ascii = inputs(&["x", "y", " "], max_len);
    let multi = inputs(&["x", "é", " ", "😀", "y"], 5);
    let mut insts: Vec<Inst> = Vec::new();
    crate::inst::all_c19(&mut |i| insts.push(i));
    all_skips(&mut |i| insts.push(i));
    let n_insts = insts.len();
    vutil::run_workers(jobs, col, |w, n| {
        let mut l = Local::new();
        for (k, inst) in insts.iter().enumerate() {
            if k % n != w {
                continue;
            }
            l.count(&format!("instantiations_{}", inst.kind));
            let set = if inst.multibyte { &multi } else { &ascii };
            for s in set {
                l.evaluations += 1;
                let o = (inst.run)(s);
                let m = (inst.model)(s);
                let wit = || json!({"combinator": inst.desc, "input": s, "model": format!("{:?}", m), "observed": format!("{:?}", o)});
                if m.map_or(false, |(e, _)| e > 0) || (m.is_none() && !s.is_empty()) {
                    l.nontrivial += 1;
                }
                match (&o.parse, &o.check) {
                    (Err(p), _) | (_, Err(p)) => {
                        l.violation(format!("unclassified/C19/{}/panic", inst.kind), format!("{} panicked on {:?}: {}", inst.desc, s, p), wit());
                        continue;
                    }
                    _ => {}
                }
                let parse = o.parse.clone().unwrap();
                let check = o.check.clone().unwrap();
                match (parse, m) {
                    (Some((e, c, _)), Some((me, mc))) => {
                        l.count("matched");
                        if e != me {
                            l.violation(format!("unclassified/C19/{}/cursor", inst.kind), format!("{} on {:?}: stops at {}, the concatenation it denotes ends at {}", inst.desc, s, e, me), wit());
                        } else if c != mc {
                            l.violation(format!("unclassified/C19/{}/count", inst.kind), format!("{} on {:?}: yields {} elements, {} iterations match", inst.desc, s, c, mc), wit());
                        }
                        if let Some((min, max)) = inst.bounds {
                            if c < min || max.map_or(false, |m| c > m) {
                                l.violation(format!("unclassified/C19/{}/bounds", inst.kind), format!("{} on {:?}: {} elements are outside the bounds", inst.desc, s, c), wit());
                            }
                        }
                    }
                    (None, None) => l.count("failed"),
                    (Some((e, c, _)), None) => {
                        let sig = match inst.bounds {
                            Some((min, Some(max))) if min > max => format!("unclassified/C19/{}/succeeds-with-MIN-greater-than-MAX", inst.kind),
                            _ => format!("unclassified/C19/{}/succeeds-with-too-few-iterations", inst.kind),
                        };
                        l.violation(sig, format!("{} on {:?}: succeeds at {} with {} elements, must fail", inst.desc, s, e, c), wit());
                    }
                    (None, Some((me, mc))) => {
                        l.violation(format!("unclassified/C19/{}/fails-with-enough-iterations", inst.kind), format!("{} on {:?}: fails, but {} iterations match up to {}", inst.desc, s, mc, me), wit());
                    }
                }
                // parse and check agree
                match (parse, check) {
                    (Some((e, _, sl)), Some((ce, csl))) if e == ce && sl == csl => {}
                    (None, None) => {}
                    _ => l.violation(format!("unclassified/C19/{}/parse-vs-check", inst.kind), format!("{} on {:?}: parse {:?} vs check {:?}", inst.desc, s, parse, check), wit()),
                }
                if l.evaluations % 400_003 == 1 {
                    l.sample(json!({"combinator": inst.desc, "input": s, "model": format!("{:?}", m)}));
                }
            }
        }
        l
    });
    json!({
        "exhaustive": true,
        "scope": format!("{} instantiations (RepMinMax for all MIN,MAX in 0..=4 incl. MIN>MAX, RepMin, RepExact, Rep, RepOnce with SKIP in {{0,1}}; [T;N] N in 0..=4; (T1,T2) for all element pairs; Option; AtomicRepeat; SkipChar<0..=4>) x element kinds {{string, choice, nested repetition, PUSH~POP}} x all strings of length <= {} over {{x, y, space}} (SkipChar: length <= 5 over {{x, é, space, 😀}})", n_insts, max_len),
        "rule": "evaluation = one (instantiation, input) executed through try_parse_partial_with and try_check_partial_with and compared with the list-level model; distinct by enumeration; non-trivial = the model consumes at least one byte, or rejects a non-empty input",
    })
}
