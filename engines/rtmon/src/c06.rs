//! C06: the stack nodes instantiated directly from the runtime crate, on pre-built stacks,
//! against a list-slicing model written from the property statement.

use crate::c19::{X, R};
use pest_typed::predefined_node::{PeekSlice1, PeekSlice2, Push, Str, DROP, PEEK, PEEK_ALL, POP, POP_ALL};
use pest_typed::tracker::Tracker;
use pest_typed::{AsInput, Input, Span, Stack, TypedNode};
use serde_json::json;
use std::panic::{catch_unwind, AssertUnwindSafe};
use vutil::{Collector, Local};

/// The text the stack entries point into: "a" (0..1), "bb" (1..3), "" (3..3), "é" (3..5).
const BACKING: &str = "abbé";
const TOKENS: [(usize, usize); 4] = [(0, 1), (1, 3), (3, 3), (3, 5)];

fn tok(i: usize) -> &'static str {
    &BACKING[TOKENS[i].0..TOKENS[i].1]
}

#[derive(Clone, Debug, PartialEq)]
pub struct Obs {
    /// (consumed offset, stack after as token texts) or None; Err = unwound.
    pub parse: Result<(Option<usize>, Vec<String>), String>,
    pub check: Result<(Option<usize>, Vec<String>), String>,
}

fn run_node<'i, T: TypedNode<'i, R>>(input: &'i str, entries: &[usize]) -> Obs {
    let build = || {
        let mut st: Stack<Span<'i>> = Stack::new();
        for e in entries {
            // the backing text is 'static, so its spans can live on any stack
            st.push(Span::new(BACKING, TOKENS[*e].0, TOKENS[*e].1).unwrap());
        }
        st
    };
    let dump = |st: &Stack<Span<'i>>| st[0..st.len()].iter().map(|s| s.as_str().to_string()).collect::<Vec<_>>();
    let parse = catch_unwind(AssertUnwindSafe(|| {
        let mut st = build();
        let i = input.as_input();
        let mut tr = Tracker::new(i);
        let r = T::try_parse_partial_with(i, &mut st, &mut tr).map(|(i, _)| i.byte_offset());
        (r, dump(&st))
    }))
    .map_err(|e| vutil::panic_text(&*e));
    let check = catch_unwind(AssertUnwindSafe(|| {
        let mut st = build();
        let i = input.as_input();
        let mut tr = Tracker::new(i);
        let r = T::try_check_partial_with(i, &mut st, &mut tr).map(|i| i.byte_offset());
        (r, dump(&st))
    }))
    .map_err(|e| vutil::panic_text(&*e));
    Obs { parse, check }
}

pub struct SliceInst {
    pub a: i32,
    pub b: Option<i32>,
    pub run: fn(&str, &[usize]) -> Obs,
}

pub fn slice2<const A: i32, const B: i32>() -> SliceInst {
    fn run<const A: i32, const B: i32>(s: &str, st: &[usize]) -> Obs {
        run_node::<PeekSlice2<A, B>>(s, st)
    }
    SliceInst { a: A, b: Some(B), run: run::<A, B> }
}

pub fn slice1<const A: i32>() -> SliceInst {
    fn run<const A: i32>(s: &str, st: &[usize]) -> Obs {
        run_node::<PeekSlice1<A>>(s, st)
    }
    SliceInst { a: A, b: None, run: run::<A> }
}

/// The property: indices beyond the length are out of range, negative ones count from the top,
/// an empty or inverted range succeeds without consuming, otherwise the entries a..b bottom to top.
fn model_slice(stack: &[usize], a: i32, b: Option<i32>) -> Option<String> {
    let len = stack.len() as i32;
    let norm = |i: i32| -> Option<i32> {
        if i > len {
            None
        } else if i >= 0 {
            Some(i)
        } else if len + i >= 0 {
            Some(len + i)
        } else {
            None
        }
    };
    let s = norm(a)?;
    let e = match b {
        Some(b) => norm(b)?,
        None => len,
    };
    if e <= s {
        return Some(String::new());
    }
    Some(stack[s as usize..e as usize].iter().map(|t| tok(*t)).collect())
}

fn stacks(max_depth: usize) -> Vec<Vec<usize>> {
    let mut all = vec![vec![]];
    let mut level = vec![vec![]];
    for _ in 0..max_depth {
        let mut next = Vec::new();
        for s in &level {
            for t in 0..TOKENS.len() {
                let mut n: Vec<usize> = s.clone();
                n.push(t);
                next.push(n);
            }
        }
        all.extend(next.iter().cloned());
        level = next;
    }
    all
}

/// Inputs for an expected text: the text itself (plus a tail), a strict prefix, one changed character, nothing.
fn probes(expected: &str) -> Vec<String> {
    let mut v = vec![expected.to_string(), format!("{}a", expected), format!("{}é", expected), String::new(), "a".into(), "bb".into(), "é".into(), "x".into()];
    if !expected.is_empty() {
        let chars: Vec<char> = expected.chars().collect();
        v.push(chars[..chars.len() - 1].iter().collect());
        let mut c = chars.clone();
        let last = c.len() - 1;
        c[last] = if c[last] == 'a' { 'b' } else { 'a' };
        v.push(c.iter().collect());
        let mut c = chars;
        c[0] = if c[0] == 'b' { 'é' } else { 'b' };
        v.push(c.iter().collect());
    }
    v.sort();
    v.dedup();
    v
}

fn texts(stack: &[usize]) -> Vec<String> {
    stack.iter().map(|t| tok(*t).to_string()).collect()
}

fn judge(l: &mut Local, what: &str, stack: &[usize], input: &str, o: &Obs, want_end: Option<usize>, want_stack: Option<Vec<String>>) {
    l.evaluations += 1;
    let wit = || json!({"node": what, "stack_bottom_to_top": texts(stack), "input": input, "expected_end": format!("{:?}", want_end), "observed": format!("{:?}", o)});
    if !stack.is_empty() && (want_end.map_or(false, |e| e > 0) || !input.is_empty()) {
        l.nontrivial += 1;
    }
    for (path, r) in [("parse", &o.parse), ("check", &o.check)] {
        match r {
            Err(p) => l.violation(format!("unclassified/C06/{}/unwound", what.split('<').next().unwrap_or(what)), format!("{} ({} path) unwound on stack {:?} input {:?}: {}", what, path, texts(stack), input, p), wit()),
            Ok((end, after)) => {
                if *end != want_end {
                    l.violation(
                        format!("unclassified/C06/{}/verdict-or-offset", what.split('<').next().unwrap_or(what)),
                        format!("{} ({} path) on stack {:?} input {:?}: {:?}, the model says {:?}", what, path, texts(stack), input, end, want_end),
                        wit(),
                    );
                } else if let (Some(ws), Some(_)) = (&want_stack, want_end) {
                    if after != ws {
                        l.violation(
                            format!("unclassified/C06/{}/stack-after", what.split('<').next().unwrap_or(what)),
                            format!("{} ({} path) leaves the stack {:?}, the model says {:?}", what, path, after, ws),
                            wit(),
                        );
                    }
                }
            }
        }
    }
    match want_end {
        Some(_) => l.count("model_accepts"),
        None => l.count("model_rejects"),
    }
}

pub fn run(col: &Collector, _thorough: bool, jobs: usize) -> serde_json::Value {
    let all_stacks = stacks(4);
    let mut insts: Vec<SliceInst> = Vec::new();
    crate::inst::all_c06(&mut |i| insts.push(i));
    let n_slices = insts.len();
    vutil::run_workers(jobs, col, |w, n| {
        let mut l = Local::new();
        for (k, st) in all_stacks.iter().enumerate() {
            if k % n != w {
                continue;
            }
            l.count("stacks");
            let tx = texts(st);
            // slices
            for inst in &insts {
                let m = model_slice(st, inst.a, inst.b);
                if m.is_none() {
                    l.count("slices_out_of_range");
                } else if m.as_deref() == Some("") {
                    l.count("slices_empty");
                }
                let what = match inst.b {
                    Some(b) => format!("PeekSlice2<{},{}>", inst.a, b),
                    None => format!("PeekSlice1<{}>", inst.a),
                };
                for input in probes(m.as_deref().unwrap_or("")) {
                    let want = m.as_ref().and_then(|t| input.starts_with(t.as_str()).then_some(t.len()));
                    let o = (inst.run)(&input, st);
                    judge(&mut l, &what, st, &input, &o, want, Some(tx.clone()));
                }
            }
            // built-ins
            let top = st.last().map(|t| tok(*t).to_string());
            let all_rev: String = st.iter().rev().map(|t| tok(*t)).collect();
            for input in probes(top.as_deref().unwrap_or("")).into_iter().chain(probes(&all_rev)) {
                // PEEK
                let want = top.as_ref().and_then(|t| input.starts_with(t.as_str()).then_some(t.len()));
                judge(&mut l, "PEEK", st, &input, &run_node::<PEEK<'_>>(&input, st), want, Some(tx.clone()));
                // POP: removes the entry when it matches (the stack after a failure is not specified here)
                let mut popped = tx.clone();
                popped.pop();
                judge(&mut l, "POP", st, &input, &run_node::<POP<'_>>(&input, st), want, Some(popped.clone()));
                // DROP
                let want_drop = (!st.is_empty()).then_some(0);
                judge(&mut l, "DROP", st, &input, &run_node::<DROP>(&input, st), want_drop, Some(popped.clone()));
                // PEEK_ALL / POP_ALL: top to bottom (an empty stack matches the empty text)
                let want_all = input.starts_with(all_rev.as_str()).then_some(all_rev.len());
                judge(&mut l, "PEEK_ALL", st, &input, &run_node::<PEEK_ALL<'_>>(&input, st), want_all, Some(tx.clone()));
                judge(&mut l, "POP_ALL", st, &input, &run_node::<POP_ALL<'_>>(&input, st), want_all, Some(vec![]));
                // PUSH("x")
                let want_push = input.starts_with('x').then_some(1);
                let mut pushed = tx.clone();
                pushed.push("x".into());
                judge(&mut l, "Push", st, &input, &run_node::<Push<Str<X>>>(&input, st), want_push, Some(pushed));
            }
            if k % 37 == 5 {
                l.sample(json!({"stack_bottom_to_top": tx, "slices": "PEEK[a..b] for all a,b in -6..=6 and PEEK[a..]", "builtins": ["PEEK", "POP", "DROP", "PEEK_ALL", "POP_ALL", "PUSH"]}));
            }
        }
        l
    });
    json!({
        "exhaustive": true,
        "scope": format!("all {} stacks of depth <= 4 over the entries {{\"a\", \"bb\", \"\", \"é\"}} x {} slice nodes (PeekSlice2<a,b> for a,b in -6..=6, PeekSlice1<a>) and PEEK/POP/DROP/PEEK_ALL/POP_ALL/PUSH x probe inputs (the expected text, with tails, strict prefixes, single-character changes, unrelated text), parse and check path", all_stacks.len(), n_slices),
        "rule": "evaluation = one (node, stack, input) executed with a pre-built pest_typed::Stack through try_parse_partial_with / try_check_partial_with, compared with the list-slicing model (verdict, offset, stack afterwards, no unwinding); distinct by enumeration; non-trivial = non-empty stack and (something consumed or non-empty input)",
    })
}
