fn main(){}
