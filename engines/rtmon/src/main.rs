//! rtmon: small-scope exhaustive monitors on combinators instantiated directly from the runtime
//! crate (no generated parser in between): C19 (counted repetition, arrays, pairs, optionals,
//! skip-n-chars, skip-repeat) and C06 (stack nodes on pre-built stacks).

mod c06;
mod c19;
mod inst;

use serde_json::json;
use vutil::{Args, Collector};

fn main() {
    let args = Args::parse();
    vutil::quiet_panics();
    let prop = args.str("prop", "C19");
    let thorough = args.thorough();
    let jobs = vutil::jobs(&args);
    let col = Collector::new();
    let t0 = std::time::Instant::now();
    let extra = match prop.as_str() {
        "C19" => c19::run(&col, thorough, jobs),
        "C06" => c06::run(&col, thorough, jobs),
        _ => panic!("unknown --prop"),
    };
    let mut doc = col.finish(extra);
    doc["engine_wall_s"] = json!(t0.elapsed().as_secs_f64());
    doc["debug_assertions"] = json!(cfg!(debug_assertions));
    vutil::write_out(&args, &doc);
}
