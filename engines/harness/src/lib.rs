//! Runtime support of the generated recorder ("harness"): the generic case runner, the pest
//! side, the oracles, and the work distribution. The generated part (src/bin/shard_*.rs) only
//! contains the derive invocations and tables of function pointers.

pub mod drive;
pub mod judge;
pub mod obs;
pub mod pestside;
pub mod run;
pub mod walk;

pub use drive::{main_with, GrammarEntry, RuleEntry, VariantEntry};
pub use obs::*;
pub use pestside::{run_pest, PestObs};
pub use run::{getter_obs, grp, hash_of, run_rule, run_variant, run_variant_with, view_atomic, view_full, view_silent, Extra, Flat, Inputs};
