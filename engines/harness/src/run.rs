//! Generic recorder: drives one generated rule type through the public API surface.

use crate::obs::*;
use pest_typed::iterators::{Pair, PairTree, Pairs, ThinToken, Token};
use pest_typed::tracker::Tracker;
use pest_typed::{AsInput, Input, ParsableTypedNode, Position, RuleStruct, RuleType, Span, Stack, TypedParser};
use std::collections::hash_map::DefaultHasher;
use std::fmt::Debug;
use std::hash::{Hash, Hasher};
use std::panic::{catch_unwind, AssertUnwindSafe};

/// Observation groups (bit mask): what a case executes.
pub mod grp {
    pub const STR: u32 = 1 << 0; // four entry points on &str
    pub const TREE: u32 = 1 << 1; // token tree views of successful parses
    pub const FORMS: u32 = 1 << 2; // Position / Span forms
    pub const WITH: u32 = 1 << 3; // explicit stack + tracker
    pub const TRAVERSAL: u32 = 1 << 4;
    pub const GETTERS: u32 = 1 << 5;
    pub const WALK: u32 = 1 << 6;
    pub const VALUE: u32 = 1 << 7; // clone / eq / hash / second run
    pub const EXTRA_ENTRY: u32 = 1 << 8; // &String, TypedParser::*
    pub const PAIRS: u32 = 1 << 9; // results through several windows of one string, compared pairwise
    pub const ALL: u32 = (1 << 10) - 1;
}

pub struct Inputs<'i> {
    /// The owned slice.
    pub s: &'i str,
    pub string: &'i String,
    /// pre + s
    pub pos_parent: &'i str,
    /// pre + s + post
    pub span_parent: &'i str,
    pub pre_len: usize,
    pub groups: u32,
    /// Step budget for the hooks (u64::MAX = none).
    pub budget: u64,
}

pub struct Extra<T> {
    pub view: fn(&T, &mut NodeObs, u32),
    pub hash: Option<fn(&T) -> u64>,
    /// Generated per rule: getters and structure walker.
    pub generated: fn(&T, &mut NodeObs, u32),
}

pub fn hash_of<T: Hash>(t: &T) -> u64 {
    let mut h = DefaultHasher::new();
    t.hash(&mut h);
    h.finish()
}

pub fn thin_to_tok<R: RuleType>(t: &ThinToken<R>) -> Tok {
    Tok { rule: format!("{:?}", t.rule), start: t.start, end: t.end, children: t.children.iter().map(thin_to_tok).collect() }
}

pub fn token_to_tok<R: RuleType>(t: &Token<'_, R>) -> Tok {
    Tok { rule: format!("{:?}", t.rule), start: t.span.start(), end: t.span.end(), children: t.children.iter().map(token_to_tok).collect() }
}

/// Thin layer over `pest_typed::verif` so that the recorder also builds without the hooks.
pub mod hooks {
    use crate::obs::HookObs;
    #[cfg(feature = "hooks")]
    pub fn reset(budget: u64, trace: bool) {
        pest_typed::verif::reset(budget, trace)
    }
    #[cfg(not(feature = "hooks"))]
    pub fn reset(_budget: u64, _trace: bool) {}
    #[cfg(feature = "hooks")]
    pub fn take() -> HookObs {
        super::hook_obs(pest_typed::verif::take())
    }
    #[cfg(not(feature = "hooks"))]
    pub fn take() -> HookObs {
        HookObs::default()
    }
    pub const ENABLED: bool = cfg!(feature = "hooks");
}

fn payload(e: Box<dyn std::any::Any + Send>) -> (String, String) {
    #[cfg(feature = "hooks")]
    {
        if let Some(b) = e.downcast_ref::<pest_typed::verif::StepBudgetExceeded>() {
            return ("step-budget".into(), format!("exceeded at tick {}", b.0));
        } else if e.downcast_ref::<pest_typed::verif::BadCursorAbort>().is_some() {
            return ("bad-cursor".into(), "cursor left its input (see hook report)".into());
        }
    }
    ("panic".into(), vutil::panic_text(&*e))
}

pub fn guard<T>(f: impl FnOnce() -> Res<T>) -> Res<T> {
    match catch_unwind(AssertUnwindSafe(f)) {
        Ok(r) => r,
        Err(e) => {
            let (k, m) = payload(e);
            Res::Panic(k, m)
        }
    }
}

pub fn err_obs<R: RuleType>(e: &pest_typed::error::Error<R>) -> ErrObs {
    use pest_typed::error::{InputLocation, LineColLocation};
    let pos = match e.location {
        InputLocation::Pos(p) => p,
        InputLocation::Span((a, _)) => a,
    };
    let line_col = match e.line_col {
        LineColLocation::Pos(lc) => lc,
        LineColLocation::Span(a, _) => a,
    };
    let rendered = catch_unwind(AssertUnwindSafe(|| (format!("{}", e), format!("{:?}", e))));
    match rendered {
        Ok((d, _)) => ErrObs { pos, line_col, display: d, render_ok: true },
        Err(_) => ErrObs { pos, line_col, display: String::new(), render_ok: false },
    }
}

#[cfg(feature = "hooks")]
pub fn hook_obs(r: pest_typed::verif::Report) -> HookObs {
    HookObs {
        ticks: r.ticks,
        attempts: r.attempts,
        nonempty_delta: r.nonempty_delta,
        leaks: r
            .leaks
            .iter()
            .map(|l| (format!("{:?}", l.construct).to_lowercase(), l.matched, l.parse_path, l.before.clone(), l.after.clone()))
            .collect(),
        leak_count: r.leak_count,
        bad_cursors: r.bad_cursors.iter().map(|b| (b.site.to_string(), b.offsets, b.range)).collect(),
        bad_cursor_count: r.bad_cursor_count,
        cursor_checks: r.cursor_checks,
        trace: r.trace,
    }
}

/// Views available for every kind: tokens through `Pairs`.
fn base_view<'i, R: RuleType, T: Pairs<'i, R> + Debug + Clone + PartialEq>(n: &T, o: &mut NodeObs, groups: u32) {
    o.debug = format!("{:?}", n);
    if groups & grp::TREE != 0 {
        let toks = n.self_or_children();
        o.span_text_ok = catch_unwind(AssertUnwindSafe(|| {
            fn walk<R: RuleType>(t: &Token<'_, R>) -> usize {
                t.span.as_str().len() + t.children.iter().map(walk).sum::<usize>()
            }
            toks.iter().map(walk).sum::<usize>()
        }))
        .is_ok();
        o.tokens = toks.iter().map(token_to_tok).collect();
    }
    if groups & grp::VALUE != 0 {
        let c = n.clone();
        o.clone_eq = c == *n && *n == c;
        o.clone_debug_eq = format!("{:?}", c) == o.debug;
    }
}

/// Non-silent rules with content (normal, `$`, `!`).
pub fn view_full<'i, R, T>(n: &T, o: &mut NodeObs, groups: u32)
where
    R: RuleType,
    T: Pairs<'i, R> + Pair<'i, R> + PairTree<'i, R> + RuleStruct<'i, R> + Debug + Clone + PartialEq,
{
    base_view::<R, T>(n, o, groups);
    if groups & grp::TREE != 0 {
        o.thin = Some(thin_to_tok(&n.as_thin_token()));
        o.as_token = Some(token_to_tok(&n.as_token()));
        o.children = Some(n.children().iter().map(token_to_tok).collect());
        let sp = n.span();
        o.span = Some((sp.start(), sp.end()));
    }
    if groups & grp::TRAVERSAL != 0 {
        let mut t = Traversal::default();
        let _ = n.iterate_pre_order::<()>(|tok, depth| {
            t.pre_order.push((format!("{:?}", tok.rule), tok.span.start(), tok.span.end(), depth));
            Ok(())
        });
        let _ = n.iterate_level_order::<()>(|tok, _| {
            t.level_order.push((format!("{:?}", tok.rule), tok.span.start(), tok.span.end()));
            Ok(())
        });
        t.format_as_tree = n.format_as_tree().unwrap_or_else(|_| "<fmt::Error>".into());
        // error propagation: stop at the second token
        let mut seen = 0usize;
        let r = n.iterate_pre_order(|_, _| {
            seen += 1;
            if seen == 2 {
                Err(())
            } else {
                Ok(())
            }
        });
        t.pre_order_stop_seen = if r.is_err() { seen } else { usize::MAX - seen };
        let mut seen = 0usize;
        let r = n.iterate_level_order(|_, _| {
            seen += 1;
            if seen == 2 {
                Err(())
            } else {
                Ok(())
            }
        });
        t.level_order_stop_seen = if r.is_err() { seen } else { usize::MAX - seen };
        o.traversal = Some(t);
    }
}

/// Atomic rules: a span, no content.
pub fn view_atomic<'i, R, T>(n: &T, o: &mut NodeObs, groups: u32)
where
    R: RuleType,
    T: Pairs<'i, R> + Pair<'i, R> + Debug + Clone + PartialEq,
{
    base_view::<R, T>(n, o, groups);
    if groups & grp::TREE != 0 {
        o.thin = Some(thin_to_tok(&n.as_thin_token()));
        o.as_token = Some(token_to_tok(&n.as_token()));
        o.children = Some(n.children().iter().map(token_to_tok).collect());
        let sp = n.span();
        o.span = Some((sp.start(), sp.end()));
    }
}

/// Silent rules: content, no span.
pub fn view_silent<'i, R, T>(n: &T, o: &mut NodeObs, groups: u32)
where
    R: RuleType,
    T: Pairs<'i, R> + Debug + Clone + PartialEq,
{
    base_view::<R, T>(n, o, groups);
}

fn node_obs<T>(n: &T, end: usize, x: &Extra<T>, groups: u32) -> NodeObs {
    let mut o = NodeObs { end, ..Default::default() };
    (x.view)(n, &mut o, groups);
    if let Some(h) = x.hash {
        if groups & grp::VALUE != 0 {
            o.hash = Some(h(n));
        }
    }
    (x.generated)(n, &mut o, groups);
    o
}

fn form<'i, R, T, A>(input: A, x: &Extra<T>, groups: u32, budget: u64) -> FormObs
where
    R: RuleType,
    T: ParsableTypedNode<'i, R> + Clone,
    A: AsInput<'i> + Copy,
    T: Clone,
{
    let lite = groups & !(grp::GETTERS | grp::WALK | grp::TRAVERSAL);
    let parse_partial = guard(|| {
        hooks::reset(budget, false);
        match T::try_parse_partial(input) {
            Ok((rest, node)) => {
                let end = rest.byte_offset();
                let mut o = node_obs(&node, end, x, groups);
                if let (Some(h), true) = (x.hash, groups & grp::VALUE != 0) {
                    let c = node.clone();
                    o.clone_hash_eq = h(&c) == h(&node);
                } else {
                    o.clone_hash_eq = true;
                }
                Res::Ok(o)
            }
            Err(e) => Res::Err(err_obs(&e)),
        }
    });
    let check_partial = guard(|| {
        hooks::reset(budget, false);
        match T::try_check_partial(input) {
            Ok(rest) => Res::Ok(rest.byte_offset()),
            Err(e) => Res::Err(err_obs(&e)),
        }
    });
    let parse = guard(|| {
        hooks::reset(budget, false);
        match T::try_parse(input) {
            Ok(node) => Res::Ok(node_obs(&node, usize::MAX, x, lite)),
            Err(e) => Res::Err(err_obs(&e)),
        }
    });
    let check = guard(|| {
        hooks::reset(budget, false);
        match T::try_check(input) {
            Ok(()) => Res::Ok(()),
            Err(e) => Res::Err(err_obs(&e)),
        }
    });
    hooks::reset(u64::MAX, false);
    FormObs { parse_partial, check_partial, parse, check }
}

fn with_obs<'i, R: RuleType, T: ParsableTypedNode<'i, R>>(s: &'i str, parse_path: bool, budget: u64) -> WithObs {
    let mut w = WithObs::default();
    let mut stack: Stack<Span<'i>> = Stack::new();
    let input = s.as_input();
    let mut tracker: Tracker<'i, R> = Tracker::new(input);
    hooks::reset(budget, true);
    let r = catch_unwind(AssertUnwindSafe(|| {
        if parse_path {
            T::try_parse_partial_with(input, &mut stack, &mut tracker).map(|(i, _)| i.byte_offset())
        } else {
            T::try_check_partial_with(input, &mut stack, &mut tracker).map(|i| i.byte_offset())
        }
    }));
    w.hooks = hooks::take();
    hooks::reset(u64::MAX, false);
    match r {
        Ok(end) => w.end = end,
        Err(e) => w.panicked = Some(payload(e)),
    }
    w.stack = stack[0..stack.len()].iter().map(|sp| (sp.start(), sp.end())).collect();
    let (pos, attempts) = tracker.finish();
    w.tracker_pos = pos.pos();
    for (upper, (pos_rules, neg_rules, special)) in attempts.iter() {
        w.attempts.push((
            upper.map(|u| format!("{:?}", u)),
            pos_rules.iter().map(|r| format!("{:?}", r)).collect(),
            neg_rules.iter().map(|r| format!("{:?}", r)).collect(),
            special.len(),
        ));
    }
    w.tracker_attempts = format!("{:?}", w.attempts);
    w
}

/// Drive one rule type through everything `inp.groups` asks for.
pub fn run_rule<'i, R, T, P>(inp: &Inputs<'i>, out: &mut CaseObs, x: Extra<T>)
where
    R: RuleType,
    T: ParsableTypedNode<'i, R> + Debug + Clone + PartialEq,
    P: TypedParser<R>,
{
    let g = inp.groups;
    if g & grp::STR != 0 {
        // hooks of the plain parse_partial are kept separately
        out.s = form::<R, T, &'i str>(inp.s, &x, g, inp.budget);
        hooks::reset(inp.budget, false);
        let _ = catch_unwind(AssertUnwindSafe(|| T::try_parse_partial(inp.s).map(|_| ())));
        out.hooks = hooks::take();
        hooks::reset(u64::MAX, false);
    }
    if g & grp::VALUE != 0 {
        // the same input object parsed twice: ==, hash, Debug
        let r = catch_unwind(AssertUnwindSafe(|| {
            let a = T::try_parse_partial(inp.s);
            let b = T::try_parse_partial(inp.s);
            match (a, b) {
                (Ok((ia, na)), Ok((ib, nb))) => {
                    let eq = na == nb && ia.byte_offset() == ib.byte_offset();
                    let h = x.hash.map(|h| h(&na) == h(&nb)).unwrap_or(true);
                    let d = format!("{:?}", na) == format!("{:?}", nb);
                    Some((eq, h, d))
                }
                (Err(ea), Err(eb)) => Some((format!("{}", ea) == format!("{}", eb), true, true)),
                _ => Some((false, false, false)),
            }
        }));
        out.s_again_equal = r.unwrap_or(None);
    }
    if g & grp::EXTRA_ENTRY != 0 {
        out.string_parse_partial = Some(guard(|| match T::try_parse_partial(inp.string) {
            Ok((rest, node)) => Res::Ok((rest.byte_offset(), format!("{:?}", node))),
            Err(e) => Res::Err(err_obs(&e)),
        }));
        out.tp_parse = Some(guard(|| match P::try_parse::<T>(inp.s) {
            Ok(node) => Res::Ok(format!("{:?}", node)),
            Err(e) => Res::Err(err_obs(&e)),
        }));
        out.tp_check = Some(guard(|| match P::try_check::<T>(inp.s) {
            Ok(()) => Res::Ok(()),
            Err(e) => Res::Err(err_obs(&e)),
        }));
    }
    if g & grp::FORMS != 0 {
        let lite = g & !(grp::GETTERS | grp::WALK);
        if let Some(p) = Position::new(inp.pos_parent, inp.pre_len) {
            out.pos = Some(form::<R, T, Position<'i>>(p, &x, lite, inp.budget));
        }
        if let Some(sp) = Span::new(inp.span_parent, inp.pre_len, inp.pre_len + inp.s.len()) {
            out.span = Some(form::<R, T, Span<'i>>(sp, &x, lite, inp.budget));
        }
    }
    if g & grp::PAIRS != 0 {
        // results through different sub-ranges of ONE string object: equal iff structurally identical
        let r = catch_unwind(AssertUnwindSafe(|| {
            let p = inp.span_parent;
            let a = inp.pre_len;
            let b = a + inp.s.len();
            let mut nodes: Vec<(String, T)> = Vec::new();
            if let Ok((_, n)) = T::try_parse_partial(p) {
                nodes.push(("&str".into(), n));
            }
            if let Some(sp) = Span::new(p, a, b) {
                if let Ok((_, n)) = T::try_parse_partial(sp) {
                    nodes.push((format!("Span({},{})", a, b), n));
                }
            }
            if let Some(sp) = Span::new(p, a, p.len()) {
                if let Ok((_, n)) = T::try_parse_partial(sp) {
                    nodes.push((format!("Span({},{})", a, p.len()), n));
                }
            }
            if let Some(sp) = Span::new(p, 0, b) {
                if let Ok((_, n)) = T::try_parse_partial(sp) {
                    nodes.push((format!("Span(0,{})", b), n));
                }
            }
            if let Some(pos) = Position::new(p, a) {
                if let Ok((_, n)) = T::try_parse_partial(pos) {
                    nodes.push((format!("Position({})", a), n));
                }
            }
            if let Some(pos) = Position::new(p, 0) {
                if let Ok((_, n)) = T::try_parse_partial(pos) {
                    nodes.push(("Position(0)".into(), n));
                }
            }
            let mut po = PairObs::default();
            let dbg: Vec<String> = nodes.iter().map(|(_, n)| format!("{:?}", n)).collect();
            for i in 0..nodes.len() {
                for j in 0..nodes.len() {
                    po.pairs += 1;
                    let eq = nodes[i].1 == nodes[j].1;
                    let deq = dbg[i] == dbg[j];
                    if eq {
                        po.equal += 1;
                    }
                    if eq != deq && po.bad.len() < 4 {
                        po.bad.push((if eq { "equal-but-different-structure".into() } else { "identical-structure-but-not-equal".into() }, nodes[i].0.clone(), nodes[j].0.clone()));
                    }
                    if let (true, Some(h)) = (eq, x.hash) {
                        if h(&nodes[i].1) != h(&nodes[j].1) && po.bad.len() < 4 {
                            po.bad.push(("equal-but-different-hash".into(), nodes[i].0.clone(), nodes[j].0.clone()));
                        }
                    }
                }
            }
            po
        }));
        out.pairs = r.ok();
    }
    if g & grp::WITH != 0 {
        out.with_parse = Some(with_obs::<R, T>(inp.s, true, inp.budget));
        out.with_check = Some(with_obs::<R, T>(inp.s, false, inp.budget));
    }
}

/// Option variants (C20): verdict, offset and token tree of the prefix and the full parse only.
pub fn run_variant<'i, R, T>(inp: &Inputs<'i>, out: &mut CaseObs)
where
    R: RuleType,
    T: ParsableTypedNode<'i, R> + Pairs<'i, R> + Debug + Clone + PartialEq,
{
    out.s.parse_partial = guard(|| match T::try_parse_partial(inp.s) {
        Ok((rest, node)) => Res::Ok(NodeObs {
            end: rest.byte_offset(),
            tokens: node.self_or_children().iter().map(token_to_tok).collect(),
            span_text_ok: true,
            ..Default::default()
        }),
        Err(e) => Res::Err(err_obs(&e)),
    });
    out.s.parse = guard(|| match T::try_parse(inp.s) {
        Ok(node) => Res::Ok(NodeObs { end: usize::MAX, tokens: node.self_or_children().iter().map(token_to_tok).collect(), span_text_ok: true, ..Default::default() }),
        Err(e) => Res::Err(err_obs(&e)),
    });
    out.s.check_partial = guard(|| match T::try_check_partial(inp.s) {
        Ok(rest) => Res::Ok(rest.byte_offset()),
        Err(e) => Res::Err(err_obs(&e)),
    });
}

/// Like [`run_variant`], and the generated getters of the variant are called on the prefix parse.
pub fn run_variant_with<'i, R, T>(inp: &Inputs<'i>, out: &mut CaseObs, getters: fn(&T, &mut NodeObs))
where
    R: RuleType,
    T: ParsableTypedNode<'i, R> + Pairs<'i, R> + Debug + Clone + PartialEq,
{
    run_variant::<R, T>(inp, out);
    if inp.groups & grp::GETTERS != 0 {
        let r = catch_unwind(AssertUnwindSafe(|| {
            T::try_parse_partial(inp.s).ok().map(|(_, node)| {
                let mut o = NodeObs::default();
                getters(&node, &mut o);
                o.getters
            })
        }));
        if let (Ok(Some(g)), Res::Ok(n)) = (r, &mut out.s.parse_partial) {
            n.getters = g;
        }
    }
}

// ---------------------------------------------------------------------------------------------
// Getter flattening (C16)
// ---------------------------------------------------------------------------------------------

/// Flattens what a generated getter returns: Vec-major, tuple-slot-minor.
pub trait Flat<'i, R: RuleType> {
    fn flat(&self, path: &mut Vec<usize>, out: &mut Vec<Leaf>);
    fn shape() -> String;
}

impl<'a, 'i, R: RuleType, T: Pairs<'i, R> + Debug> Flat<'i, R> for &'a T {
    fn flat(&self, path: &mut Vec<usize>, out: &mut Vec<Leaf>) {
        out.push(Leaf {
            tokens: self.self_or_children().iter().map(token_to_tok).collect(),
            debug: format!("{:?}", self),
            addr: *self as *const T as usize,
            path: path.iter().map(|i| i.to_string()).collect::<Vec<_>>().join("."),
        });
    }
    fn shape() -> String {
        "L".into()
    }
}

impl<'i, R: RuleType, F: Flat<'i, R>> Flat<'i, R> for Option<F> {
    fn flat(&self, path: &mut Vec<usize>, out: &mut Vec<Leaf>) {
        if let Some(x) = self {
            x.flat(path, out)
        }
    }
    fn shape() -> String {
        format!("O({})", F::shape())
    }
}

impl<'i, R: RuleType, F: Flat<'i, R>> Flat<'i, R> for Vec<F> {
    fn flat(&self, path: &mut Vec<usize>, out: &mut Vec<Leaf>) {
        for x in self {
            x.flat(path, out)
        }
    }
    fn shape() -> String {
        format!("V({})", F::shape())
    }
}

macro_rules! flat_tuple {
    ($($T:ident $i:tt),+) => {
        impl<'i, R: RuleType, $($T: Flat<'i, R>),+> Flat<'i, R> for ($($T,)+) {
            fn flat(&self, path: &mut Vec<usize>, out: &mut Vec<Leaf>) {
                $( path.push($i); self.$i.flat(path, out); path.pop(); )+
            }
            fn shape() -> String {
                let v: Vec<String> = vec![$($T::shape()),+];
                format!("T({})", v.join(","))
            }
        }
    };
}
flat_tuple!(A 0, B 1);
flat_tuple!(A 0, B 1, C 2);
flat_tuple!(A 0, B 1, C 2, D 3);
flat_tuple!(A 0, B 1, C 2, D 3, E 4);
flat_tuple!(A 0, B 1, C 2, D 3, E 4, F 5);
flat_tuple!(A 0, B 1, C 2, D 3, E 4, F 5, G 6);
flat_tuple!(A 0, B 1, C 2, D 3, E 4, F 5, G 6, H 7);
flat_tuple!(A 0, B 1, C 2, D 3, E 4, F 5, G 6, H 7, I 8);
flat_tuple!(A 0, B 1, C 2, D 3, E 4, F 5, G 6, H 7, I 8, J 9);
flat_tuple!(A 0, B 1, C 2, D 3, E 4, F 5, G 6, H 7, I 8, J 9, K 10);
flat_tuple!(A 0, B 1, C 2, D 3, E 4, F 5, G 6, H 7, I 8, J 9, K 10, L 11);

pub fn getter_obs<'i, R: RuleType, F: Flat<'i, R>>(name: &str, value: F) -> GetterObs {
    let mut leaves = Vec::new();
    value.flat(&mut Vec::new(), &mut leaves);
    GetterObs { name: name.to_string(), shape: F::shape(), leaves }
}
