//! Support for the generated structure walker (C17): every accessor of choices, sequences,
//! repetitions and leaf nodes is called on the parsed tree; what they report is written down as
//! an event list that the judge compares with the reference interpreter's derivation, and
//! accessor-internal contradictions are findings on the spot.

use pest_typed::choices::{Choice2, Choice3};
use pest_typed::iterators::Pairs;
use pest_typed::predefined_node::{CharRange, Insens, PeekSlice1, PeekSlice2, Skip, Str, ANY, DROP, NEWLINE, PEEK, PEEK_ALL, POP, POP_ALL, SOI};
use pest_typed::{RuleType, StringArrayWrapper, StringWrapper};
use std::cell::RefCell;
use std::fmt::Debug;

#[derive(Default)]
pub struct Walk {
    pub events: Vec<String>,
    pub findings: Vec<(String, String)>,
    /// (name of the referenced rule / built-in, address of the node stored in the content),
    /// in derivation order: what the getters must hand out (C16: "the very node").
    pub addrs: Vec<(String, usize)>,
}

impl Walk {
    fn ev(&mut self, e: String) {
        self.events.push(e);
    }
    fn bad(&mut self, sig: &str, what: String) {
        if self.findings.len() < 8 {
            self.findings.push((sig.to_string(), what));
        }
    }
}

pub fn addr<T>(name: &str, v: &T, w: &mut Walk) {
    w.addrs.push((name.to_string(), v as *const T as usize));
}

pub fn str_leaf<T: StringWrapper>(_v: &Str<T>, lit: &str, w: &mut Walk) {
    if <Str<T> as StringWrapper>::CONTENT != lit {
        w.bad("str-content", format!("Str::CONTENT is {:?}, the grammar says {:?}", <Str<T> as StringWrapper>::CONTENT, lit));
    }
    w.ev("S".into());
}

pub fn insens_leaf<T: StringWrapper>(v: &Insens<'_, T>, lit: &str, w: &mut Walk) {
    if <Insens<'_, T> as StringWrapper>::CONTENT != lit {
        w.bad("insens-constant", format!("Insens::CONTENT is {:?}, the grammar says {:?}", <Insens<'_, T> as StringWrapper>::CONTENT, lit));
    }
    w.ev(format!("I:{}", v.content));
}

pub fn range_leaf<const MIN: char, const MAX: char>(v: &CharRange<MIN, MAX>, a: char, b: char, w: &mut Walk) {
    if MIN != a || MAX != b {
        w.bad("range-bounds", format!("CharRange<{:?},{:?}> for the range {:?}..{:?}", MIN, MAX, a, b));
    }
    w.ev(format!("R:{}", v.content));
}

pub fn rule<'i, R: RuleType, T: Pairs<'i, R>>(v: &T, name: &str, w: &mut Walk) {
    let toks = v.self_or_children();
    if toks.len() == 1 && format!("{:?}", toks[0].rule) == name {
        w.ev(format!("N:{}:{}:{}", name, toks[0].span.start(), toks[0].span.end()));
    } else {
        w.ev(format!("N:{}:?", name));
        w.bad("rule-node", format!("a {} node shows {} tokens through the Pairs API", name, toks.len()));
    }
}

pub fn silent_rule<'i, R: RuleType, T: Pairs<'i, R>>(_v: &T, name: &str, w: &mut Walk) {
    w.ev(format!("Q:{}", name));
}

pub fn any(v: &ANY, w: &mut Walk) {
    w.ev(format!("A:{}", v.content));
}

pub fn soi(_v: &SOI, w: &mut Walk) {
    w.ev("SOI".into());
}

pub fn eoi<'i, R: RuleType, T: Pairs<'i, R>>(v: &T, w: &mut Walk) {
    let toks = v.self_or_children();
    match toks.first() {
        Some(t) => w.ev(format!("EOI:{}", t.span.start())),
        None => w.ev("EOI:?".into()),
    }
}

pub fn newline(v: &NEWLINE, w: &mut Walk) {
    w.ev(format!("NL:{:?}", v.content));
}

pub fn peek(v: &PEEK<'_>, w: &mut Walk) {
    w.ev(format!("P:{}", v.span.as_str()));
}
pub fn pop(v: &POP<'_>, w: &mut Walk) {
    w.ev(format!("P:{}", v.span.as_str()));
}
pub fn peek_all(v: &PEEK_ALL<'_>, w: &mut Walk) {
    w.ev(format!("P:{}", v.span.as_str()));
}
pub fn pop_all(v: &POP_ALL<'_>, w: &mut Walk) {
    w.ev(format!("P:{}", v.span.as_str()));
}
pub fn drop_(_v: &DROP, w: &mut Walk) {
    w.ev("D".into());
}

pub trait LeafChar {
    fn leaf_char(&self) -> Option<char>;
}
impl<const MIN: char, const MAX: char> LeafChar for CharRange<MIN, MAX> {
    fn leaf_char(&self) -> Option<char> {
        Some(self.content)
    }
}
impl<A: LeafChar, B: LeafChar> LeafChar for Choice2<A, B> {
    fn leaf_char(&self) -> Option<char> {
        match (self._0(), self._1()) {
            (Some(a), None) => a.leaf_char(),
            (None, Some(b)) => b.leaf_char(),
            _ => None,
        }
    }
}
impl<A: LeafChar, B: LeafChar, C: LeafChar> LeafChar for Choice3<A, B, C> {
    fn leaf_char(&self) -> Option<char> {
        match (self._0(), self._1(), self._2()) {
            (Some(a), None, None) => a.leaf_char(),
            (None, Some(b), None) => b.leaf_char(),
            (None, None, Some(c)) => c.leaf_char(),
            _ => None,
        }
    }
}

pub fn ascii<T: LeafChar>(v: &T, w: &mut Walk) {
    match v.leaf_char() {
        Some(c) => w.ev(format!("C:{}", c)),
        None => {
            w.ev("C:?".into());
            w.bad("ascii-accessors", "an ASCII class node does not expose exactly one matched alternative".into());
        }
    }
}

pub fn unicode_char(c: char, name: &str, w: &mut Walk) {
    if let Some(f) = pest_typed::unicode::by_name(name) {
        if !f(c) {
            w.bad("unicode-content", format!("{} node holds {:?}, which does not have the property", name, c));
        }
    }
    w.ev(format!("X:{}", c));
}

pub trait Slice {}
impl<const A: i32, const B: i32> Slice for PeekSlice2<A, B> {}
impl<const A: i32> Slice for PeekSlice1<A> {}
pub fn peek_slice<T: Slice>(_v: &T, w: &mut Walk) {
    w.ev("K".into());
}

pub fn skip_until<S: StringArrayWrapper>(v: &Skip<'_, S>, w: &mut Walk) {
    w.ev(format!("U:{}", v.span.as_str()));
}

pub fn same_node<T>(a: &T, b: &T, w: &mut Walk) {
    if !std::ptr::eq(a, b) {
        w.bad("accessor-identity", "two accessors of the same element hand out different nodes".into());
    }
}

pub fn same_debug<T: Debug>(a: &T, b: &T, w: &mut Walk) {
    if format!("{:?}", a) != format!("{:?}", b) {
        w.bad("into-matched", "into_matched() yields a different element than get_matched()".into());
    }
}

/// Number of items one implicit skip took, whatever type the generator chose for the skipper
/// (`AtomicRepeat<..>` when the grammar defines a skip rule, `Empty` when it believes there is none).
pub trait SkipLen {
    fn skip_len(&self) -> usize;
}
impl<'i> SkipLen for pest_typed::predefined_node::Empty<'i> {
    fn skip_len(&self) -> usize {
        0
    }
}
impl<T> SkipLen for pest_typed::predefined_node::AtomicRepeat<T> {
    fn skip_len(&self) -> usize {
        self.content.len()
    }
}

pub fn gap(items: usize, w: &mut Walk) {
    w.ev(format!("G{}", items));
}

pub fn choice_index(some: &[bool], w: &mut Walk) -> usize {
    let n = some.len();
    let hits: Vec<usize> = (0..n).filter(|i| some[*i]).collect();
    if hits.len() != 1 {
        w.bad("choice-accessors", format!("{} of the {} accessors _0.._{} return Some", hits.len(), n, n - 1));
    }
    let k = hits.first().copied().unwrap_or(n);
    w.ev(format!("C{}/{}", k, n));
    k
}

pub fn ran(i: usize, log: &RefCell<Vec<usize>>) {
    log.borrow_mut().push(i);
}

pub fn chain_result(api: &str, k: usize, got: usize, log: &RefCell<Vec<usize>>, w: &mut Walk) {
    let ran = log.borrow();
    if *ran != vec![k] || got != k {
        w.bad("choice-chain", format!("{}: alternative {} is set, the chain ran the closures {:?} and returned {}", api, k, *ran, got));
    }
}

pub fn match_result(k: usize, got: usize, w: &mut Walk) {
    if got != k {
        w.bad("match-choices", format!("match_choices! ran the arm {} for alternative {}", got, k));
    }
}

pub fn opt(some: bool, w: &mut Walk) {
    w.ev(if some { "O1".into() } else { "O0".into() });
}

pub fn rep(matched: usize, all: usize, into: usize, content: usize, w: &mut Walk) {
    if matched != all || matched != into || matched != content {
        w.bad("rep-iterators", format!("iter_matched {} iter_all {} into_iter_matched {} content {}", matched, all, into, content));
    }
    w.ev(format!("*{}", matched));
}
