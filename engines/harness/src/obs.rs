//! What the recorder observes at the client boundary.

pub use refpeg::Tok;

#[derive(Clone, Debug, PartialEq)]
pub enum Res<T> {
    Ok(T),
    Err(ErrObs),
    /// The call unwound: (kind, message). kind: "panic", "step-budget", "bad-cursor".
    Panic(String, String),
    /// Not run for this case.
    Skipped,
}

impl<T> Res<T> {
    pub fn ok(&self) -> Option<&T> {
        match self {
            Res::Ok(t) => Some(t),
            _ => None,
        }
    }
    pub fn err(&self) -> Option<&ErrObs> {
        match self {
            Res::Err(e) => Some(e),
            _ => None,
        }
    }
    pub fn is_ok(&self) -> bool {
        matches!(self, Res::Ok(_))
    }
    pub fn is_err(&self) -> bool {
        matches!(self, Res::Err(_))
    }
    pub fn panicked(&self) -> Option<(&str, &str)> {
        match self {
            Res::Panic(k, m) => Some((k, m)),
            _ => None,
        }
    }
    pub fn ran(&self) -> bool {
        !matches!(self, Res::Skipped)
    }
    pub fn map_ok<U>(&self, f: impl Fn(&T) -> U) -> Res<U> {
        match self {
            Res::Ok(t) => Res::Ok(f(t)),
            Res::Err(e) => Res::Err(e.clone()),
            Res::Panic(a, b) => Res::Panic(a.clone(), b.clone()),
            Res::Skipped => Res::Skipped,
        }
    }
    /// "ok" / "err" / "panic" / "skipped"
    pub fn class(&self) -> &'static str {
        match self {
            Res::Ok(_) => "ok",
            Res::Err(_) => "err",
            Res::Panic(..) => "panic",
            Res::Skipped => "skipped",
        }
    }
}

#[derive(Clone, Debug, PartialEq)]
pub struct ErrObs {
    /// `error.location` (byte offset).
    pub pos: usize,
    pub line_col: (usize, usize),
    pub display: String,
    /// Rendering (Display and Debug) did not panic.
    pub render_ok: bool,
}

/// Traversal API observations of a non-silent, content-carrying rule.
#[derive(Clone, Debug, PartialEq, Default)]
pub struct Traversal {
    /// (rule, start, end, depth) in pre-order.
    pub pre_order: Vec<(String, usize, usize, usize)>,
    /// (rule, start, end) in level order.
    pub level_order: Vec<(String, usize, usize)>,
    pub format_as_tree: String,
    /// pre-order stops when the callback errors at the k-th token: tokens seen.
    pub pre_order_stop_seen: usize,
    pub level_order_stop_seen: usize,
}

#[derive(Clone, Debug, PartialEq)]
pub struct Leaf {
    /// Tokens of the node through the Pairs API.
    pub tokens: Vec<Tok>,
    pub debug: String,
    /// Address of the node (to test that getters hand out the very nodes stored in the content).
    pub addr: usize,
    /// Tuple-slot path through which the getter handed it out ("1.0"; "" if no tuple is involved).
    pub path: String,
}

#[derive(Clone, Debug, PartialEq)]
pub struct GetterObs {
    pub name: String,
    pub shape: String,
    pub leaves: Vec<Leaf>,
}

#[derive(Clone, Debug, PartialEq, Default)]
pub struct NodeObs {
    pub end: usize,
    pub debug: String,
    pub hash: Option<u64>,
    /// `Pairs::self_or_children()`.
    pub tokens: Vec<Tok>,
    /// `Pair::as_thin_token()` (non-silent rules).
    pub thin: Option<Tok>,
    /// `Pair::as_token()` converted, and `Pair::children()` converted (non-silent rules).
    pub as_token: Option<Tok>,
    pub children: Option<Vec<Tok>>,
    /// `Spanned::span()`.
    pub span: Option<(usize, usize)>,
    pub clone_eq: bool,
    pub clone_hash_eq: bool,
    pub clone_debug_eq: bool,
    pub traversal: Option<Traversal>,
    pub getters: Vec<GetterObs>,
    /// Findings of the generated structure walker (C17): (signature, description).
    pub walk: Vec<(String, String)>,
    pub walk_events: u64,
    pub walk_list: Vec<String>,
    /// (referenced name, node address) pairs seen by the walker in derivation order.
    pub walk_addrs: Vec<(String, usize)>,
    /// Address range of the root node's content allocation is not knowable in general; instead
    /// the addresses of all leaves reachable through the content's own Pairs walk are irrelevant.
    pub span_text_ok: bool,
}

/// Outcome of `try_*_with` with a harness-owned stack and tracker.
#[derive(Clone, Debug, PartialEq, Default)]
pub struct WithObs {
    pub end: Option<usize>,
    pub panicked: Option<(String, String)>,
    pub stack: Vec<(usize, usize)>,
    pub tracker_pos: usize,
    /// Debug rendering of the attempts map (rule lists), stable.
    pub tracker_attempts: String,
    /// (upper rule, expected rules, unexpected rules, special messages)
    pub attempts: Vec<(Option<String>, Vec<String>, Vec<String>, usize)>,
    pub hooks: HookObs,
}

#[derive(Clone, Debug, PartialEq, Default)]
pub struct HookObs {
    pub ticks: u64,
    pub attempts: [[u64; 4]; 5],
    pub nonempty_delta: [u64; 5],
    pub leaks: Vec<(String, bool, bool, Vec<(usize, usize)>, Vec<(usize, usize)>)>,
    pub leak_count: u64,
    pub bad_cursors: Vec<(String, (usize, usize), (usize, usize))>,
    pub bad_cursor_count: u64,
    pub cursor_checks: u64,
    pub trace: Vec<(String, usize, bool, bool)>,
}

/// The four entry points on one input form.
#[derive(Clone, Debug, PartialEq)]
pub struct FormObs {
    pub parse_partial: Res<NodeObs>,
    pub check_partial: Res<usize>,
    pub parse: Res<NodeObs>,
    pub check: Res<()>,
}

impl Default for FormObs {
    fn default() -> Self {
        FormObs { parse_partial: Res::Skipped, check_partial: Res::Skipped, parse: Res::Skipped, check: Res::Skipped }
    }
}

#[derive(Clone, Debug, Default)]
pub struct CaseObs {
    /// `&str` form on the owned slice.
    pub s: FormObs,
    /// Second execution of parse_partial on the same `&str` (determinism, ==, hash across runs).
    pub s_again_equal: Option<(bool, bool, bool)>,
    /// `&String` form.
    pub string_parse_partial: Option<Res<(usize, String)>>,
    /// `TypedParser::try_parse` / `try_check`.
    pub tp_parse: Option<Res<String>>,
    pub tp_check: Option<Res<()>>,
    /// `Position(pre + s, |pre|)`.
    pub pos: Option<FormObs>,
    /// `Span(pre + s + post, |pre|, |pre| + |s|)`.
    pub span: Option<FormObs>,
    pub with_parse: Option<WithObs>,
    pub with_check: Option<WithObs>,
    /// Hook report accumulated over the plain `&str` parse_partial.
    pub hooks: HookObs,
    /// Results obtained through different sub-ranges of one string object, compared pairwise.
    pub pairs: Option<PairObs>,
}

#[derive(Clone, Debug, Default)]
pub struct PairObs {
    pub pairs: u64,
    pub equal: u64,
    /// (what, a, b)
    pub bad: Vec<(String, String, String)>,
}
