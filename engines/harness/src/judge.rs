//! Oracles: one judge per property over the observations of a case.

use crate::drive::{exec_typed, CaseIn, GrammarEntry, PropCfg, RuleEntry};
use crate::obs::*;
use crate::pestside::PestObs;
use refpeg::interp::{Discipline, Opts, Outcome};
use refpeg::{Grammar, Kind, Node};
use serde_json::{json, Value};
use std::collections::{BTreeMap, HashMap};
use vutil::{Local, Rng};

/// Largest observed ratio (x100) of hook ticks of one prefix parse to reference steps + 200.
pub static MAX_TICK_RATIO_X100: std::sync::atomic::AtomicU64 = std::sync::atomic::AtomicU64::new(0);

pub struct Model {
    pub id: String,
    pub family: String,
    pub opt: Grammar,
    pub error: Option<String>,
    pub alphabet: refpeg::gen::Alphabet,
    pub small_scope: Vec<String>,
    pub hostile: Vec<String>,
    pub kinds: HashMap<String, Kind>,
    pub uses_stack: HashMap<String, bool>,
    /// Some rule references WHITESPACE / COMMENT explicitly.
    pub feat_explicit_skip: bool,
    /// WHITESPACE / COMMENT (normal or silent kind) reach non-silent rules.
    pub feat_skip_subrules: bool,
    pub shapes: HashMap<String, BTreeMap<String, String>>,
    /// The raw AST (what `pest_optimizer = false` compiles) and the getter shapes it asks for.
    pub raw: Option<Grammar>,
    pub raw_shapes: HashMap<String, BTreeMap<String, String>>,
    /// rule -> getter -> mention id -> tuple-slot path (optimized / raw AST)
    pub paths: HashMap<String, BTreeMap<String, BTreeMap<usize, String>>>,
    pub raw_paths: HashMap<String, BTreeMap<String, BTreeMap<usize, String>>>,
}

impl Model {
    pub fn build(id: &str, family: &str, text: &str, seed: u64) -> Model {
        let mut rng = Rng::new(seed).derive(vutil::fnv(id.as_bytes()));
        match Grammar::optimized(text) {
            Ok(opt) => {
                let alphabet = refpeg::gen::Alphabet::of(&opt, &mut rng);
                let small_scope = refpeg::gen::small_scope(&alphabet, 6000);
                let hostile = refpeg::gen::hostile(&alphabet);
                let kinds = opt.rules.iter().map(|r| (r.name.clone(), r.kind)).collect();
                let uses_stack = opt.rules.iter().map(|r| (r.name.clone(), opt.uses_stack(&r.name))).collect();
                let mut feat_explicit_skip = false;
                for r in opt.rules.iter().filter(|r| !r.name.starts_with("w__")) {
                    r.expr.walk(&mut |n| {
                        if let Node::Ident { name, .. } = n {
                            if (name == "WHITESPACE" || name == "COMMENT") && opt.index.contains_key(name.as_str()) {
                                feat_explicit_skip = true;
                            }
                        }
                    });
                }
                let mut feat_skip_subrules = false;
                for name in ["WHITESPACE", "COMMENT"] {
                    if let Some(r) = opt.rule(name) {
                        if matches!(r.kind, Kind::Normal | Kind::Silent) {
                            for n in opt.reach(name) {
                                if n != name {
                                    if let Some(x) = opt.rule(&n) {
                                        if x.kind != Kind::Silent && x.name != "WHITESPACE" && x.name != "COMMENT" {
                                            feat_skip_subrules = true;
                                        }
                                    }
                                    if n == "EOI" {
                                        feat_skip_subrules = true;
                                    }
                                }
                            }
                        }
                    }
                }
                let shapes = opt.rules.iter().map(|r| (r.name.clone(), refpeg::shape::getter_shapes(r))).collect();
                let raw = Grammar::raw(text).ok();
                let paths = opt.rules.iter().map(|r| (r.name.clone(), refpeg::shape::mention_paths(r))).collect();
                let raw_paths = raw.as_ref().map(|g| g.rules.iter().map(|r| (r.name.clone(), refpeg::shape::mention_paths(r))).collect()).unwrap_or_default();
                let raw_shapes = raw.as_ref().map(|g| g.rules.iter().map(|r| (r.name.clone(), refpeg::shape::getter_shapes(r))).collect()).unwrap_or_default();
                Model { raw, raw_shapes, paths, raw_paths, id: id.into(), family: family.into(), opt, error: None, alphabet, small_scope, hostile, kinds, uses_stack, feat_explicit_skip, feat_skip_subrules, shapes }
            }
            Err(e) => Model {
                id: id.into(),
                family: family.into(),
                opt: Grammar { text: text.into(), rules: vec![], index: HashMap::new(), whitespace: None, comment: None },
                error: Some(format!("{}: {}", e.stage, e.messages.join(" | "))),
                alphabet: Default::default(),
                small_scope: vec![],
                hostile: vec![],
                kinds: HashMap::new(),
                uses_stack: HashMap::new(),
                feat_explicit_skip: false,
                feat_skip_subrules: false,
                shapes: HashMap::new(),
                raw: None,
                raw_shapes: HashMap::new(),
                paths: HashMap::new(),
                raw_paths: HashMap::new(),
            },
        }
    }
}

pub struct CaseCtx<'a> {
    pub prop: &'static str,
    pub entry: &'a GrammarEntry,
    pub rule: &'a RuleEntry,
    pub model: &'a Model,
    pub case: &'a CaseIn,
    pub index: usize,
    pub cfg: &'a PropCfg,
}

impl<'a> CaseCtx<'a> {
    fn witness(&self, extra: Value) -> Value {
        json!({
            "grammar_id": self.entry.id,
            "family": self.entry.family,
            "rule": self.rule.name,
            "input": self.case.s,
            "pre": self.case.pre,
            "post": self.case.post,
            "origin": self.case.origin,
            "detail": extra,
            "grammar": self.entry.grammar,
            "config": if cfg!(feature = "extras") { "extras" } else { "plain" },
        })
    }
    fn kind(&self) -> Kind {
        self.model.kinds[self.rule.name]
    }
}

/// What the partial parse of the owned slice has to be.
pub struct Expect {
    pub end: Option<usize>,
    pub source: &'static str,
    /// Tokens below the entry (unpruned), from the same source.
    pub tokens: Vec<Tok>,
}

/// Logical step budget of one entry-point call: 100 x the reference interpreter's steps + 50 000
/// hook ticks. The largest ratio observed on the unchanged tree is about 1.5 (see the C11 evidence,
/// `max_tick_ratio_x100`), so this leaves a factor of more than 60 before it can fire wrongly,
/// and a runaway parse is stopped within milliseconds.
pub fn step_budget(reference_steps: u64) -> u64 {
    reference_steps.saturating_mul(100).saturating_add(50_000)
}

fn full_opts() -> Opts {
    Opts::default()
}

fn expect(ctx: &CaseCtx, pest: &PestObs, full: &Outcome, l: &mut Local) -> Option<Expect> {
    if full.exhausted {
        l.count("skipped_model_step_limit");
        return None;
    }
    if full.zero_progress {
        l.count("skipped_not_well_founded");
        return None;
    }
    let stack = ctx.model.uses_stack[ctx.rule.name];
    match pest.end() {
        Some(pe) if pe == full.end => {
            l.count("oracle_pest");
            if let PestObs::Ok { tokens, .. } = pest {
                if *tokens != full.tokens {
                    l.count("model_conflict_tree");
                    if l.notes.len() < 3 {
                        l.notes.push(format!("tree conflict: {} rule {} input {:?}: pest {} refpeg {}", ctx.entry.id, ctx.rule.name, ctx.case.s, tree_text(tokens), tree_text(&full.tokens)));
                    }
                }
                Some(Expect { end: pe, source: "pest", tokens: tokens.clone() })
            } else {
                Some(Expect { end: None, source: "pest", tokens: vec![] })
            }
        }
        other => {
            if stack {
                // pest panics on an empty stack or skips a restore: PEG semantics with full backtracking decide
                l.count(if other.is_none() { "oracle_refpeg_pest_panicked" } else { "oracle_refpeg_pest_differs" });
                Some(Expect { end: full.end, source: "refpeg", tokens: full.tokens.clone() })
            } else {
                // no stack operation in reach: pest is defined, so the model (not the code under test) is off
                l.count("model_conflict_end");
                if l.notes.len() < 5 {
                    l.notes.push(format!("model conflict: {} rule {} input {:?}: pest {:?} refpeg {:?}", ctx.entry.id, ctx.rule.name, ctx.case.s, other, full.end));
                }
                None
            }
        }
    }
}

/// Remove the descendants of tokens whose rule is `@` or `$` (the documented difference).
pub fn prune(toks: &[Tok], kinds: &HashMap<String, Kind>) -> Vec<Tok> {
    toks.iter()
        .map(|t| {
            let atomic = matches!(kinds.get(&t.rule), Some(Kind::Atomic) | Some(Kind::CompoundAtomic));
            Tok { rule: t.rule.clone(), start: t.start, end: t.end, children: if atomic { vec![] } else { prune(&t.children, kinds) } }
        })
        .collect()
}

fn shift(toks: &[Tok], by: usize) -> Vec<Tok> {
    toks.iter().map(|t| Tok { rule: t.rule.clone(), start: t.start + by, end: t.end + by, children: shift(&t.children, by) }).collect()
}

fn unshift(toks: &[Tok], by: usize) -> Option<Vec<Tok>> {
    toks.iter()
        .map(|t| Some(Tok { rule: t.rule.clone(), start: t.start.checked_sub(by)?, end: t.end.checked_sub(by)?, children: unshift(&t.children, by)? }))
        .collect()
}

fn tree_text(toks: &[Tok]) -> String {
    fn go(t: &Tok, out: &mut String) {
        out.push_str(&format!("{}[{}..{}]", t.rule, t.start, t.end));
        if !t.children.is_empty() {
            out.push('(');
            for c in &t.children {
                go(c, out);
            }
            out.push(')');
        }
    }
    let mut s = String::new();
    for t in toks {
        go(t, &mut s);
        s.push(' ');
    }
    s
}

struct Emu {
    name: &'static str,
    opts: Opts,
}

fn emulations(ctx: &CaseCtx) -> Vec<Emu> {
    let m = ctx.model;
    let mut v = Vec::new();
    // the skip rules are only forced atomic when they are reached through the implicit skip
    let explicit = m.feat_explicit_skip || ((ctx.rule.name == "WHITESPACE" || ctx.rule.name == "COMMENT") && matches!(ctx.kind(), Kind::Normal | Kind::Silent));
    if explicit {
        v.push(Emu { name: "WHITESPACE-or-COMMENT-not-forced-atomic-outside-the-implicit-skip", opts: Opts { emu_explicit_skip_inherits: true, ..full_opts() } });
    }
    if m.uses_stack[ctx.rule.name] {
        v.push(Emu { name: "nested-stack-snapshot-cleared-on-success-loses-pops", opts: Opts { discipline: Discipline::TypedLike, ..full_opts() } });
    }
    if m.feat_skip_subrules {
        v.push(Emu { name: "tokens-below-WHITESPACE-or-COMMENT-are-emitted", opts: Opts { emu_tokens_under_skip: true, ..full_opts() } });
        if explicit {
            v.push(Emu {
                name: "tokens-below-WHITESPACE-or-COMMENT-are-emitted+not-forced-atomic",
                opts: Opts { emu_tokens_under_skip: true, emu_explicit_skip_inherits: true, ..full_opts() },
            });
        }
    }
    v
}

fn run_model(ctx: &CaseCtx, opts: &Opts) -> Outcome {
    refpeg::run(&ctx.model.opt, ctx.rule.name, &ctx.case.s, 0, ctx.case.s.len(), opts)
}

/// Signature of an end/verdict mismatch: a known root cause only if the emulation of exactly that
/// cause predicts what the real code did.
fn classify_end(ctx: &CaseCtx, prop: &str, observed: Option<usize>) -> String {
    for e in emulations(ctx) {
        let o = run_model(ctx, &e.opts);
        if !o.exhausted && o.end == observed {
            return format!("{}/known/{}", prop, e.name);
        }
    }
    format!("unclassified/{}/verdict-or-offset", prop)
}

fn classify_tree(ctx: &CaseCtx, prop: &str, observed: &[Tok], end: Option<usize>) -> String {
    for e in emulations(ctx) {
        let o = run_model(ctx, &e.opts);
        if !o.exhausted && o.end == end && prune(&o.tokens, &ctx.model.kinds) == observed {
            return format!("{}/known/{}", prop, e.name);
        }
    }
    format!("unclassified/{}/tree", prop)
}

fn typed_end(r: &Res<NodeObs>) -> Option<Option<usize>> {
    match r {
        Res::Ok(n) => Some(Some(n.end)),
        Res::Err(_) => Some(None),
        _ => None,
    }
}

/// The tokens a successful typed parse exposes for the entry rule (both views must agree).
fn typed_tokens(n: &NodeObs) -> &Vec<Tok> {
    &n.tokens
}

pub fn run_and_judge(ctx: &CaseCtx, l: &mut Local) {
    let s = &ctx.case.s;
    let full = run_model(ctx, &full_opts());
    if full.exhausted || full.zero_progress {
        // not well-founded on this input (runaway recursion / non-progressing repetition): the real
        // code and pest would not return either; outside every property's quantifier
        l.count(if full.exhausted { "skipped_model_step_or_depth_limit" } else { "skipped_not_well_founded" });
        return;
    }
    if full.steps > 250_000 {
        // exponential backtracking on this input (same in pest and in the code under test): not worth the time
        l.count("skipped_expensive_case");
        return;
    }
    let mut budget = step_budget(full.steps);
    let mut groups = ctx.cfg.groups;
    if groups & crate::run::grp::PAIRS != 0 && !(ctx.case.pre.is_empty() && ctx.case.post.is_empty()) {
        // the pair observation also parses the other windows of the parent string: they must be
        // well-founded too, and the step budget has to cover them
        let parent = format!("{}{}{}", ctx.case.pre, ctx.case.s, ctx.case.post);
        let b = ctx.case.pre.len() + ctx.case.s.len();
        let quiet = Opts { record_trace: false, ..full_opts() };
        for (lo, hi) in [(0, parent.len()), (0, b), (ctx.case.pre.len(), parent.len())] {
            let o = refpeg::run(&ctx.model.opt, ctx.rule.name, &parent, lo, hi, &quiet);
            if o.exhausted || o.zero_progress {
                groups &= !crate::run::grp::PAIRS;
                l.count("pair_observation_skipped_not_well_founded");
            }
            budget = budget.max(step_budget(o.steps));
        }
    }
    let obs = exec_typed(ctx.rule.typed, ctx.case, groups, budget);
    if matches!(&obs.s.parse_partial, Res::Panic(k, _) if k == "step-budget") {
        l.count("step_budget_blowups");
    }
    let pest = (ctx.rule.pest)(s);
    l.evaluations += 1;
    let exp = expect(ctx, &pest, &full, l);
    // non-trivial: consumed something or failed beyond the first byte
    let nontrivial = match &obs.s.parse_partial {
        Res::Ok(n) => n.end > 0,
        Res::Err(e) => e.pos > 0 || !s.is_empty(),
        _ => true,
    };
    if nontrivial {
        l.nontrivial += 1;
    }
    match obs.s.parse_partial.class() {
        "ok" => l.count("typed_accepted"),
        "err" => l.count("typed_rejected"),
        "panic" => l.count("typed_unwound"),
        _ => {}
    }
    if ctx.index % 997 == 3 {
        l.sample(json!({"grammar_id": ctx.entry.id, "rule": ctx.rule.name, "input": s, "pre": ctx.case.pre, "post": ctx.case.post,
            "typed": format!("{:?}", typed_end(&obs.s.parse_partial)), "pest": format!("{:?}", pest.end()), "refpeg": format!("{:?}", full.end)}));
    }
    match ctx.prop {
        "C01" | "C07" | "C06" => {
            c01(ctx, &obs, exp.as_ref(), l);
            if ctx.prop == "C07" {
                c02(ctx, &obs, exp.as_ref(), l);
            }
            if ctx.prop == "C06" {
                c06(ctx, &obs, &full, exp.as_ref(), l);
            }
        }
        "C02" => c02(ctx, &obs, exp.as_ref(), l),
        "C03" => c03(ctx, &obs, l),
        "C04" => c04(ctx, &obs, l),
        "C05" => c05(ctx, &obs, &full, exp.as_ref(), l),
        "C08" => c08(ctx, &obs, l),
        "C09" => c09(ctx, &obs, l),
        "C10" => c10(ctx, &obs, &full, exp.as_ref(), l),
        "C11" => c11(ctx, &obs, &full, l),
        "C15" => c15(ctx, &obs, exp.as_ref(), l),
        "C16" => c16(ctx, &obs, &full, exp.as_ref(), l),
        "C17" => c17(ctx, &obs, &full, exp.as_ref(), l),
        "C18" => c18(ctx, &obs, l),
        "C20" => c20(ctx, &obs, exp.as_ref(), l),
        _ => {}
    }
}

// ---------------------------------------------------------------------------------------------
// C01 / C07: verdict and consumed offset
// ---------------------------------------------------------------------------------------------

fn c01(ctx: &CaseCtx, obs: &CaseObs, exp: Option<&Expect>, l: &mut Local) {
    let exp = match exp {
        Some(e) => e,
        None => return,
    };
    let p = ctx.prop;
    match typed_end(&obs.s.parse_partial) {
        Some(t) => {
            l.count("verdicts_compared");
            if t != exp.end {
                let sig = classify_end(ctx, p, t);
                l.violation(
                    sig,
                    format!("try_parse_partial: typed {:?}, expected {:?} ({})", t, exp.end, exp.source),
                    ctx.witness(json!({"typed": format!("{:?}", t), "expected": format!("{:?}", exp.end), "oracle": exp.source})),
                );
            }
        }
        None => {
            if let Some((kind, msg)) = obs.s.parse_partial.panicked() {
                if kind != "step-budget" {
                    l.violation(
                        format!("unclassified/{}/unwound-instead-of-verdict", p),
                        format!("try_parse_partial unwound ({}: {}), expected {:?}", kind, msg, exp.end),
                        ctx.witness(json!({"kind": kind, "message": msg})),
                    );
                }
            }
        }
    }
}

// ---------------------------------------------------------------------------------------------
// C02: token tree
// ---------------------------------------------------------------------------------------------

fn c02(ctx: &CaseCtx, obs: &CaseObs, exp: Option<&Expect>, l: &mut Local) {
    let exp = match exp {
        Some(e) => e,
        None => return,
    };
    let n = match &obs.s.parse_partial {
        Res::Ok(n) => n,
        _ => return,
    };
    if exp.end != Some(n.end) {
        return; // C01's business
    }
    let p = ctx.prop;
    let want = prune(&exp.tokens, &ctx.model.kinds);
    l.count("trees_compared");
    l.count_n("tokens_compared", want.len() as u64);
    let got = typed_tokens(n);
    if *got != want {
        let sig = classify_tree(ctx, p, got, Some(n.end));
        l.violation(
            sig,
            format!("Pairs::self_or_children: typed {} expected {} ({})", tree_text(got), tree_text(&want), exp.source),
            ctx.witness(json!({"typed": tree_text(got), "expected": tree_text(&want), "oracle": exp.source})),
        );
        return;
    }
    // non-silent entry: the Pair views must show the same single token
    if let Some(thin) = &n.thin {
        l.count("thin_tokens_compared");
        if want.len() != 1 || *thin != want[0] {
            let sig = classify_tree(ctx, p, std::slice::from_ref(thin), Some(n.end));
            l.violation(
                sig,
                format!("Pair::as_thin_token: typed {} expected {}", tree_text(std::slice::from_ref(thin)), tree_text(&want)),
                ctx.witness(json!({"typed": tree_text(std::slice::from_ref(thin)), "expected": tree_text(&want)})),
            );
        }
    }
    if !n.span_text_ok {
        l.violation(format!("unclassified/{}/span-text", p), "taking the text of a token span panicked", ctx.witness(json!(null)));
    }
}

// ---------------------------------------------------------------------------------------------
// C03: check-only entry points agree with parsing
// ---------------------------------------------------------------------------------------------

fn same_err(a: &ErrObs, b: &ErrObs) -> bool {
    a.pos == b.pos && a.line_col == b.line_col && a.display == b.display && a.render_ok == b.render_ok
}

fn c03_form(ctx: &CaseCtx, f: &FormObs, form: &str, l: &mut Local) {
    // partial
    match (&f.parse_partial, &f.check_partial) {
        (Res::Ok(n), Res::Ok(e)) => {
            l.count("check_vs_parse_agreed_ok");
            if n.end != *e {
                l.violation("unclassified/C03/offset", format!("{}: try_parse_partial stops at {}, try_check_partial at {}", form, n.end, e), ctx.witness(json!({"form": form, "parse": n.end, "check": e})));
            }
        }
        (Res::Err(a), Res::Err(b)) => {
            l.count("check_vs_parse_agreed_err");
            if !same_err(a, b) {
                l.violation(
                    "unclassified/C03/error-report",
                    format!("{}: error reports differ: parse at {} {:?}, check at {} {:?}", form, a.pos, a.display, b.pos, b.display),
                    ctx.witness(json!({"form": form, "parse": a.display, "check": b.display})),
                );
            }
        }
        (a, b) if a.ran() && b.ran() => {
            if a.panicked().is_some() && b.panicked().is_some() {
                l.count("both_unwound");
            } else {
                l.violation(
                    "unclassified/C03/verdict",
                    format!("{}: try_parse_partial is {}, try_check_partial is {}", form, a.class(), b.class()),
                    ctx.witness(json!({"form": form, "parse": a.class(), "check": b.class()})),
                );
            }
        }
        _ => {}
    }
    // full
    match (&f.parse, &f.check) {
        (Res::Ok(_), Res::Ok(())) => l.count("full_check_vs_parse_agreed_ok"),
        (Res::Err(a), Res::Err(b)) => {
            l.count("full_check_vs_parse_agreed_err");
            if !same_err(a, b) {
                l.violation(
                    "unclassified/C03/error-report-full",
                    format!("{}: try_parse / try_check error reports differ: {:?} vs {:?}", form, a.display, b.display),
                    ctx.witness(json!({"form": form, "parse": a.display, "check": b.display})),
                );
            }
        }
        (a, b) if a.ran() && b.ran() => {
            if !(a.panicked().is_some() && b.panicked().is_some()) {
                l.violation(
                    "unclassified/C03/verdict-full",
                    format!("{}: try_parse is {}, try_check is {}", form, a.class(), b.class()),
                    ctx.witness(json!({"form": form, "parse": a.class(), "check": b.class()})),
                );
            }
        }
        _ => {}
    }
}

fn c03(ctx: &CaseCtx, obs: &CaseObs, l: &mut Local) {
    c03_form(ctx, &obs.s, "&str", l);
    if let Some(f) = &obs.pos {
        c03_form(ctx, f, "Position", l);
    }
    if let Some(f) = &obs.span {
        c03_form(ctx, f, "Span", l);
    }
    if let (Some(a), Some(b)) = (&obs.with_parse, &obs.with_check) {
        if a.panicked.is_none() && b.panicked.is_none() {
            if a.end != b.end {
                l.violation(
                    "unclassified/C03/with-offset",
                    format!("try_parse_partial_with -> {:?}, try_check_partial_with -> {:?}", a.end, b.end),
                    ctx.witness(json!({"parse": format!("{:?}", a.end), "check": format!("{:?}", b.end)})),
                );
            } else if a.end.is_none() {
                l.count("trackers_compared");
                if a.tracker_pos != b.tracker_pos || a.tracker_attempts != b.tracker_attempts {
                    l.violation(
                        "unclassified/C03/tracker",
                        format!("raw tracker differs: parse ({}, {}) check ({}, {})", a.tracker_pos, a.tracker_attempts, b.tracker_pos, b.tracker_attempts),
                        ctx.witness(json!({"parse": a.tracker_attempts, "check": b.tracker_attempts})),
                    );
                }
            }
        }
    }
}

// ---------------------------------------------------------------------------------------------
// C04: full parse = prefix parse + trailing skip + end of input
// ---------------------------------------------------------------------------------------------

fn c04(ctx: &CaseCtx, obs: &CaseObs, l: &mut Local) {
    let s = &ctx.case.s;
    let pe = match typed_end(&obs.s.parse_partial) {
        Some(pe) => pe,
        None => return,
    };
    let atomic_entry = matches!(ctx.kind(), Kind::Atomic | Kind::CompoundAtomic);
    let want_ok = match pe {
        Some(e) => {
            let after = if atomic_entry { e } else { refpeg::interp::skip_only(&ctx.model.opt, s, 0, s.len(), e) };
            if after != e {
                l.count("trailing_skip_nonempty");
            }
            after == s.len()
        }
        None => false,
    };
    if want_ok {
        l.count("full_parse_expected_ok");
    } else if pe.is_some() {
        l.count("full_parse_expected_err_unread_input");
    } else {
        l.count("full_parse_expected_err_no_prefix");
    }
    let mut cmp = |name: &str, class: &str, debug: Option<&String>, l: &mut Local| {
        if class == "panic" || class == "skipped" {
            return;
        }
        let ok = class == "ok";
        if ok != want_ok {
            let sig = if ok { "unclassified/C04/success-with-unread-input-or-no-prefix" } else { "unclassified/C04/rejects-fully-consumed-input" };
            l.violation(
                sig,
                format!("{} is {} but the prefix parse ends at {:?} of {} bytes (trailing skip applied: {})", name, class, pe, s.len(), !atomic_entry),
                ctx.witness(json!({"api": name, "observed": class, "prefix_end": format!("{:?}", pe), "len": s.len()})),
            );
        } else if ok {
            if let (Some(d), Res::Ok(n)) = (debug, &obs.s.parse_partial) {
                if *d != n.debug {
                    l.violation(
                        "unclassified/C04/tree-differs-from-prefix-parse",
                        format!("{} returns a different tree than try_parse_partial", name),
                        ctx.witness(json!({"api": name, "full": d, "partial": n.debug})),
                    );
                }
            }
        }
    };
    let f = &obs.s;
    cmp("try_parse", f.parse.class(), f.parse.ok().map(|n| &n.debug), l);
    cmp("try_check", f.check.class(), None, l);
    if let Some(r) = &obs.tp_parse {
        cmp("TypedParser::try_parse", r.class(), r.ok(), l);
    }
    if let Some(r) = &obs.tp_check {
        cmp("TypedParser::try_check", r.class(), None, l);
    }
    // sub-input forms: the same rule inside the window (trailing skip and end of input are the window's)
    for (form, fo, parent, lo, hi) in [
        ("Position", &obs.pos, format!("{}{}", ctx.case.pre, s), ctx.case.pre.len(), ctx.case.pre.len() + s.len()),
        ("Span", &obs.span, format!("{}{}{}", ctx.case.pre, s, ctx.case.post), ctx.case.pre.len(), ctx.case.pre.len() + s.len()),
    ] {
        let fo = match fo {
            Some(f) => f,
            None => continue,
        };
        let fpe = match typed_end(&fo.parse_partial) {
            Some(x) => x,
            None => continue,
        };
        let want = match fpe {
            Some(e) => {
                let after = if atomic_entry { e } else { refpeg::interp::skip_only(&ctx.model.opt, &parent, lo, hi, e) };
                after == hi
            }
            None => false,
        };
        l.count("sub_input_full_parses_checked");
        for (api, class) in [("try_parse", fo.parse.class()), ("try_check", fo.check.class())] {
            if class == "panic" || class == "skipped" {
                continue;
            }
            if (class == "ok") != want {
                let sig = if class == "ok" { "unclassified/C04/success-with-unread-input-or-no-prefix" } else { "unclassified/C04/rejects-fully-consumed-input" };
                l.violation(
                    sig,
                    format!("{} on {} is {} but the prefix parse ends at {:?} of the window {}..{}", api, form, class, fpe, lo, hi),
                    ctx.witness(json!({"api": api, "form": form, "observed": class, "prefix_end": format!("{:?}", fpe), "window": [lo, hi]})),
                );
            }
        }
    }
    if let Some(r) = &obs.string_parse_partial {
        // &String is the same input form as &str
        match (r, pe) {
            (Res::Ok((e, _)), Some(p)) if *e == p => {}
            (Res::Err(_), None) => {}
            (Res::Panic(..), _) | (Res::Skipped, _) => {}
            (r, _) => l.violation(
                "unclassified/C04/string-form",
                format!("try_parse_partial(&String) is {} but (&str) gives {:?}", r.class(), pe),
                ctx.witness(json!(null)),
            ),
        }
    }
}

// ---------------------------------------------------------------------------------------------
// C05: failed alternatives / optionals / iterations / look-aheads leave no trace
// ---------------------------------------------------------------------------------------------

fn c05(ctx: &CaseCtx, obs: &CaseObs, _full: &Outcome, exp: Option<&Expect>, l: &mut Local) {
    let mut typed_like: Option<Outcome> = None;
    let mut hooks: Vec<(&str, &HookObs)> = vec![("try_parse_partial", &obs.hooks)];
    if let Some(w) = &obs.with_parse {
        hooks.push(("try_parse_partial_with", &w.hooks));
    }
    if let Some(w) = &obs.with_check {
        hooks.push(("try_check_partial_with", &w.hooks));
    }
    const KINDS: [&str; 5] = ["choice", "optional", "iteration", "positive", "negative"];
    for (api, h) in hooks {
        for (k, name) in KINDS.iter().enumerate() {
            let failed = h.attempts[k][0] + h.attempts[k][1];
            l.count_n(&format!("hook_failed_{}", name), failed);
            l.count_n(&format!("hook_matched_{}", name), h.attempts[k][2] + h.attempts[k][3]);
            l.count_n(&format!("hook_stack_touched_then_undone_{}", name), h.nonempty_delta[k]);
        }
        if h.leak_count > 0 {
            let tl = typed_like.get_or_insert_with(|| run_model(ctx, &Opts { discipline: Discipline::TypedLike, ..full_opts() }));
            for (construct, matched, parse_path, before, after) in &h.leaks {
                let known = tl.leaks.iter().any(|x| x.construct == construct && x.before == *before && x.after == *after);
                let sig = if known {
                    "C05/known/nested-stack-snapshot-cleared-on-success-loses-pops".to_string()
                } else {
                    format!("unclassified/C05/stack-not-restored/{}", construct)
                };
                l.violation(
                    sig,
                    format!("{}: {} (matched={}, parse path={}) left the stack {:?}, it was {:?} before", api, construct, matched, parse_path, after, before),
                    ctx.witness(json!({"api": api, "construct": construct, "before": before, "after": after})),
                );
            }
        }
    }
    // black box: acceptance and offset against full backtracking
    c01(ctx, obs, exp, l);
    // both paths end with the same stack when they succeed
    if let (Some(a), Some(b)) = (&obs.with_parse, &obs.with_check) {
        if a.end.is_some() && a.end == b.end && a.stack != b.stack {
            l.violation(
                "unclassified/C05/parse-and-check-stacks-differ",
                format!("final stacks differ: parse {:?} check {:?}", a.stack, b.stack),
                ctx.witness(json!({"parse": a.stack, "check": b.stack})),
            );
        }
    }
}

// ---------------------------------------------------------------------------------------------
// C06 (through generated parsers): final stack contents of successful parses
// ---------------------------------------------------------------------------------------------

fn c06(ctx: &CaseCtx, obs: &CaseObs, full: &Outcome, exp: Option<&Expect>, l: &mut Local) {
    let exp = match exp {
        Some(e) => e,
        None => return,
    };
    for (api, w) in [("try_parse_partial_with", &obs.with_parse), ("try_check_partial_with", &obs.with_check)] {
        let w = match w {
            Some(w) => w,
            None => continue,
        };
        if let Some((k, m)) = &w.panicked {
            if k != "step-budget" {
                l.violation("unclassified/C06/unwound", format!("{} unwound: {}: {}", api, k, m), ctx.witness(json!({"api": api})));
            }
            continue;
        }
        if w.end.is_some() && w.end == exp.end && exp.end == full.end {
            l.count("final_stacks_compared");
            if w.stack != full.stack {
                let tl = run_model(ctx, &Opts { discipline: Discipline::TypedLike, ..full_opts() });
                let sig = if tl.end == w.end && tl.stack == w.stack {
                    "C06/known/nested-stack-snapshot-cleared-on-success-loses-pops"
                } else {
                    "unclassified/C06/final-stack"
                };
                l.violation(
                    sig,
                    format!("{}: stack after the parse is {:?}, the model says {:?}", api, w.stack, full.stack),
                    ctx.witness(json!({"api": api, "typed": w.stack, "model": full.stack})),
                );
            }
        }
    }
}

// ---------------------------------------------------------------------------------------------
// C08: Span / Position sub-inputs behave like the owned slice
// ---------------------------------------------------------------------------------------------

fn c08_form(ctx: &CaseCtx, base: &FormObs, f: &FormObs, form: &str, l: &mut Local) {
    let by = ctx.case.pre.len();
    let node = |name: &str, a: &Res<NodeObs>, b: &Res<NodeObs>, with_end: bool, l: &mut Local| match (a, b) {
        (Res::Ok(x), Res::Ok(y)) => {
            l.count("subinput_agreed_ok");
            if with_end && x.end + by != y.end {
                l.violation(
                    "unclassified/C08/consumed-length",
                    format!("{} on {}: consumed {} of the slice but {} of the sub-input", name, form, x.end, y.end as i64 - by as i64),
                    ctx.witness(json!({"api": name, "form": form, "slice": x.end, "sub_input": y.end, "shift": by})),
                );
            }
            match unshift(&y.tokens, by) {
                Some(t) if t == x.tokens => {}
                _ => l.violation(
                    "unclassified/C08/tree",
                    format!("{} on {}: tokens differ from the slice's after shifting by {}", name, form, by),
                    ctx.witness(json!({"api": name, "form": form, "slice": tree_text(&x.tokens), "sub_input": tree_text(&y.tokens), "shift": by})),
                ),
            }
        }
        (Res::Err(x), Res::Err(y)) => {
            l.count("subinput_agreed_err");
            if x.pos + by != y.pos {
                l.violation(
                    "unclassified/C08/error-location",
                    format!("{} on {}: error at {} in the slice but at {} (shift {}) in the sub-input", name, form, x.pos, y.pos, by),
                    ctx.witness(json!({"api": name, "form": form, "slice": x.pos, "sub_input": y.pos, "shift": by})),
                );
            }
        }
        (a, b) if a.ran() && b.ran() && a.panicked().is_none() && b.panicked().is_none() => l.violation(
            "unclassified/C08/verdict",
            format!("{} on {}: slice is {}, sub-input is {}", name, form, a.class(), b.class()),
            ctx.witness(json!({"api": name, "form": form, "slice": a.class(), "sub_input": b.class()})),
        ),
        _ => {}
    };
    node("try_parse_partial", &base.parse_partial, &f.parse_partial, true, l);
    node("try_parse", &base.parse, &f.parse, false, l);
    match (&base.check_partial, &f.check_partial) {
        (Res::Ok(x), Res::Ok(y)) if x + by != *y => l.violation(
            "unclassified/C08/consumed-length",
            format!("try_check_partial on {}: {} vs {} (shift {})", form, x, y, by),
            ctx.witness(json!({"api": "try_check_partial", "form": form})),
        ),
        (a, b) if a.ran() && b.ran() && a.panicked().is_none() && b.panicked().is_none() && a.class() != b.class() => l.violation(
            "unclassified/C08/verdict",
            format!("try_check_partial on {}: slice is {}, sub-input is {}", form, a.class(), b.class()),
            ctx.witness(json!({"api": "try_check_partial", "form": form})),
        ),
        _ => {}
    }
    match (&base.check, &f.check) {
        (a, b) if a.ran() && b.ran() && a.panicked().is_none() && b.panicked().is_none() && a.class() != b.class() => l.violation(
            "unclassified/C08/verdict",
            format!("try_check on {}: slice is {}, sub-input is {}", form, a.class(), b.class()),
            ctx.witness(json!({"api": "try_check", "form": form})),
        ),
        _ => {}
    }
}

fn c08(ctx: &CaseCtx, obs: &CaseObs, l: &mut Local) {
    if let Some(f) = &obs.span {
        l.count("span_form_cases");
        if !ctx.case.post.is_empty() {
            l.count("span_form_with_text_behind_the_end");
        }
        if !ctx.case.pre.is_empty() {
            l.count("span_form_with_text_before_the_start");
        }
        c08_form(ctx, &obs.s, f, "Span", l);
    }
    if let Some(f) = &obs.pos {
        l.count("position_form_cases");
        c08_form(ctx, &obs.s, f, "Position", l);
    }
}

// ---------------------------------------------------------------------------------------------
// C09: totality and offsets on character boundaries
// ---------------------------------------------------------------------------------------------

fn offsets_ok(text: &str, lo: usize, hi: usize, toks: &[Tok]) -> Option<String> {
    for t in toks {
        let ok = |o: usize| o >= lo && o <= hi && text.is_char_boundary(o);
        if !ok(t.start) || !ok(t.end) || t.start > t.end {
            return Some(format!("token {}[{}..{}] outside {}..{} or off a boundary", t.rule, t.start, t.end, lo, hi));
        }
        if let Some(e) = offsets_ok(text, lo, hi, &t.children) {
            return Some(e);
        }
    }
    None
}

fn c09_form(ctx: &CaseCtx, f: &FormObs, form: &str, text: &str, lo: usize, hi: usize, l: &mut Local) {
    let chk_node = |api: &str, r: &Res<NodeObs>, l: &mut Local| {
        l.count("entry_point_calls");
        match r {
            Res::Ok(n) => {
                if n.end != usize::MAX && !(n.end >= lo && n.end <= hi && text.is_char_boundary(n.end)) {
                    l.violation("unclassified/C09/cursor", format!("{} on {}: returned cursor {} outside {}..{} or off a boundary", api, form, n.end, lo, hi), ctx.witness(json!({"api": api, "form": form, "cursor": n.end})));
                }
                if let Some(e) = offsets_ok(text, lo, hi, &n.tokens) {
                    l.violation("unclassified/C09/token-span", format!("{} on {}: {}", api, form, e), ctx.witness(json!({"api": api, "form": form})));
                }
                if !n.span_text_ok {
                    l.violation("unclassified/C09/span-text", format!("{} on {}: span text cannot be taken", api, form), ctx.witness(json!({"api": api, "form": form})));
                }
            }
            Res::Err(e) => {
                if !(e.pos >= lo && e.pos <= hi && text.is_char_boundary(e.pos)) {
                    l.violation("unclassified/C09/error-location", format!("{} on {}: error location {} outside {}..{} or off a boundary", api, form, e.pos, lo, hi), ctx.witness(json!({"api": api, "form": form, "location": e.pos})));
                }
                if !e.render_ok {
                    l.violation("unclassified/C09/error-render", format!("{} on {}: rendering the error panicked", api, form), ctx.witness(json!({"api": api, "form": form})));
                }
            }
            Res::Panic(k, m) if k != "step-budget" => {
                l.violation(format!("unclassified/C09/{}", k), format!("{} on {} unwound: {}", api, form, m), ctx.witness(json!({"api": api, "form": form, "message": m})));
            }
            _ => {}
        }
    };
    chk_node("try_parse_partial", &f.parse_partial, l);
    chk_node("try_parse", &f.parse, l);
    let lift = |r: &Res<usize>| r.map_ok(|e| NodeObs { end: *e, span_text_ok: true, ..Default::default() });
    chk_node("try_check_partial", &lift(&f.check_partial), l);
    chk_node("try_check", &f.check.map_ok(|_| NodeObs { end: usize::MAX, span_text_ok: true, ..Default::default() }), l);
}

fn c09(ctx: &CaseCtx, obs: &CaseObs, l: &mut Local) {
    let c = ctx.case;
    c09_form(ctx, &obs.s, "&str", &c.s, 0, c.s.len(), l);
    if let Some(f) = &obs.pos {
        let parent = format!("{}{}", c.pre, c.s);
        c09_form(ctx, f, "Position", &parent, c.pre.len(), parent.len(), l);
    }
    if let Some(f) = &obs.span {
        let parent = format!("{}{}{}", c.pre, c.s, c.post);
        c09_form(ctx, f, "Span", &parent, c.pre.len(), c.pre.len() + c.s.len(), l);
    }
    for (api, r) in [("try_parse_partial(&String)", obs.string_parse_partial.as_ref().map(|r| r.class())), ("TypedParser::try_parse", obs.tp_parse.as_ref().map(|r| r.class())), ("TypedParser::try_check", obs.tp_check.as_ref().map(|r| r.class()))] {
        if r == Some("panic") {
            l.violation("unclassified/C09/panic", format!("{} unwound", api), ctx.witness(json!({"api": api})));
        }
    }
    let mut hooks = vec![&obs.hooks];
    for w in [&obs.with_parse, &obs.with_check].into_iter().flatten() {
        hooks.push(&w.hooks);
        if let Some((k, m)) = &w.panicked {
            if k != "step-budget" {
                l.violation(format!("unclassified/C09/{}", k), format!("try_*_partial_with unwound: {}", m), ctx.witness(json!({"message": m})));
            }
        }
        if let Some(e) = w.end {
            if !(e <= c.s.len() && c.s.is_char_boundary(e)) {
                l.violation("unclassified/C09/cursor", format!("try_*_partial_with: cursor {} off", e), ctx.witness(json!({"cursor": e})));
            }
        }
        if !(w.tracker_pos <= c.s.len() && c.s.is_char_boundary(w.tracker_pos)) {
            l.violation("unclassified/C09/tracker-position", format!("tracker position {} off", w.tracker_pos), ctx.witness(json!({"position": w.tracker_pos})));
        }
        for (a, b) in &w.stack {
            if !(a <= b && *b <= c.s.len() && c.s.is_char_boundary(*a) && c.s.is_char_boundary(*b)) {
                l.violation("unclassified/C09/stack-span", format!("stack entry {}..{} off", a, b), ctx.witness(json!({"entry": [a, b]})));
            }
        }
    }
    for h in hooks {
        l.count_n("hook_cursor_checks", h.cursor_checks);
        if h.bad_cursor_count > 0 {
            for (site, offs, range) in &h.bad_cursors {
                l.violation(
                    format!("unclassified/C09/bad-cursor/{}", site),
                    format!("{}: offsets {:?} outside {:?} or off a character boundary", site, offs, range),
                    ctx.witness(json!({"site": site, "offsets": [offs.0, offs.1], "range": [range.0, range.1]})),
                );
            }
        }
    }
}

// ---------------------------------------------------------------------------------------------
// C10: error reports
// ---------------------------------------------------------------------------------------------

fn bracket_lists(display: &str) -> (Vec<String>, Vec<String>) {
    // "Expected [a, b]", "Unexpected [x]", "Unexpected [x], expected [a]"
    let mut expected = Vec::new();
    let mut unexpected = Vec::new();
    for line in display.lines() {
        let t = line.trim_start();
        let mut rest = t;
        loop {
            let lower = rest.to_ascii_lowercase();
            let (is_un, at) = match (lower.find("unexpected ["), lower.find("expected [")) {
                (Some(u), Some(e)) if u + 2 == e => (true, u),
                (Some(u), Some(e)) if u < e => (true, u),
                (_, Some(e)) => (false, e),
                _ => break,
            };
            let open = match rest[at..].find('[') {
                Some(o) => at + o,
                None => break,
            };
            let close = match rest[open..].find(']') {
                Some(c) => open + c,
                None => break,
            };
            let names: Vec<String> = rest[open + 1..close].split(',').map(|x| x.trim().to_string()).filter(|x| !x.is_empty()).collect();
            if is_un {
                unexpected.extend(names);
            } else {
                expected.extend(names);
            }
            rest = &rest[close + 1..];
        }
    }
    (expected, unexpected)
}

fn c10(ctx: &CaseCtx, obs: &CaseObs, full: &Outcome, exp: Option<&Expect>, l: &mut Local) {
    let s = &ctx.case.s;
    let in_bounds = |p: usize| p <= s.len() && s.is_char_boundary(p);
    let mut check_err = |api: &str, e: &ErrObs, min_pos: usize, l: &mut Local| {
        l.count("error_reports_checked");
        if !e.render_ok {
            l.violation("unclassified/C10/render-panicked", format!("{}: rendering the error panicked", api), ctx.witness(json!({"api": api})));
        }
        if !in_bounds(e.pos) {
            l.violation("unclassified/C10/location-out-of-bounds", format!("{}: location {} not in 0..={} on a boundary", api, e.pos, s.len()), ctx.witness(json!({"api": api, "location": e.pos})));
            return;
        }
        if e.pos < min_pos {
            l.violation(
                "unclassified/C10/location-before-matched-prefix",
                format!("{}: location {} is before the end {} of the prefix the rule matched", api, e.pos, min_pos),
                ctx.witness(json!({"api": api, "location": e.pos, "prefix_end": min_pos})),
            );
        }
        // the rendered line:col must be the location's
        if let Some(p) = pest::Position::new(s, e.pos) {
            if p.line_col() != e.line_col {
                l.violation("unclassified/C10/line-col", format!("{}: line_col {:?} but location {} is {:?}", api, e.line_col, e.pos, p.line_col()), ctx.witness(json!({"api": api})));
            }
        }
    };
    let pe = typed_end(&obs.s.parse_partial);
    if let Res::Err(e) = &obs.s.parse_partial {
        check_err("try_parse_partial", e, 0, l);
    }
    if let Res::Err(e) = &obs.s.check_partial {
        check_err("try_check_partial", e, 0, l);
    }
    if let (Res::Err(e), Some(Some(p))) = (&obs.s.parse, pe) {
        check_err("try_parse", e, p, l);
    } else if let Res::Err(e) = &obs.s.parse {
        check_err("try_parse", e, 0, l);
    }
    if let (Res::Err(e), Some(Some(p))) = (&obs.s.check, pe) {
        check_err("try_check", e, p, l);
    } else if let Res::Err(e) = &obs.s.check {
        check_err("try_check", e, 0, l);
    }
    // sub-input forms: the location must lie inside the given range
    for (form, f, lo, hi, parent) in [
        ("Position", &obs.pos, ctx.case.pre.len(), ctx.case.pre.len() + s.len(), format!("{}{}", ctx.case.pre, s)),
        ("Span", &obs.span, ctx.case.pre.len(), ctx.case.pre.len() + s.len(), format!("{}{}{}", ctx.case.pre, s, ctx.case.post)),
    ] {
        if let Some(f) = f {
            for (api, e) in [("try_parse_partial", f.parse_partial.err()), ("try_check_partial", f.check_partial.err()), ("try_parse", f.parse.err()), ("try_check", f.check.err())] {
                if let Some(e) = e {
                    l.count("sub_input_error_reports_checked");
                    if !(e.pos >= lo && e.pos <= hi && parent.is_char_boundary(e.pos)) {
                        l.violation(
                            "unclassified/C10/location-outside-sub-input",
                            format!("{} on {}: error location {} is outside the given input {}..{}", api, form, e.pos, lo, hi),
                            ctx.witness(json!({"api": api, "form": form, "location": e.pos, "range": [lo, hi]})),
                        );
                    }
                    if !e.render_ok {
                        l.violation("unclassified/C10/render-panicked", format!("{} on {}: rendering the error panicked", api, form), ctx.witness(json!({"api": api, "form": form})));
                    }
                }
            }
        }
    }
    // same report every time
    if let Some((same, _, _)) = obs.s_again_equal {
        if obs.s.parse_partial.is_err() && !same {
            l.violation("unclassified/C10/unstable-report", "two runs on the same input render different reports", ctx.witness(json!(null)));
        }
    }
    // truthfulness against the reference attempt trace (only when the real run followed the model)
    let exp = match exp {
        Some(e) => e,
        None => return,
    };
    if pe != Some(exp.end) || exp.end != full.end {
        return;
    }
    let w = match &obs.with_parse {
        Some(w) if w.panicked.is_none() => w,
        _ => return,
    };
    if w.end.is_some() {
        return;
    }
    if let Res::Err(e) = &obs.s.parse_partial {
        if e.pos != w.tracker_pos {
            l.violation(
                "unclassified/C10/location-vs-tracker",
                format!("error.location {} but Tracker::finish() position {}", e.pos, w.tracker_pos),
                ctx.witness(json!({"location": e.pos, "tracker": w.tracker_pos})),
            );
        }
        // the rendered lists name the tracked rules
        let (de, du) = bracket_lists(&e.display);
        let mut te: Vec<String> = w.attempts.iter().flat_map(|a| a.1.iter().cloned()).collect();
        let mut tu: Vec<String> = w.attempts.iter().flat_map(|a| a.2.iter().cloned()).collect();
        let (mut de, mut du) = (de, du);
        for v in [&mut te, &mut tu, &mut de, &mut du] {
            v.sort();
            v.dedup();
        }
        if de.is_empty() && du.is_empty() && !(te.is_empty() && tu.is_empty()) {
            // the message wording is not one this monitor can read lists from; nothing to compare
            l.count("c10_display_lists_not_recognised");
        } else if de != te || du != tu {
            l.count("c10_display_lists_compared");
            l.violation(
                "unclassified/C10/rendered-lists",
                format!("Display lists expected {:?} unexpected {:?}, the tracker holds expected {:?} unexpected {:?}", de, du, te, tu),
                ctx.witness(json!({"display": e.display})),
            );
        } else {
            l.count("c10_display_lists_compared");
        }
    }
    // hook trace vs model trace: every tracked attempt of the real run is one the model also made;
    // otherwise the two executions diverged (e.g. the known stack finding) and the model's trace says
    // nothing about this run
    let mut unexplained = 0;
    for (rule, start, ok, _) in &w.hooks.trace {
        if !full.trace.iter().any(|a| a.rule == *rule && a.start == *start && a.ok == *ok) {
            unexplained += 1;
            if l.notes.len() < 4 {
                l.notes.push(format!("attempt not in model trace: {} rule {} input {:?}: ({}, {}, {})", ctx.entry.id, ctx.rule.name, ctx.case.s, rule, start, ok));
            }
        }
    }
    l.count_n("hook_attempts_seen", w.hooks.trace.len() as u64);
    l.count_n("hook_attempts_not_in_model_trace", unexplained);
    if unexplained > 0 {
        // the real run made tracked attempts the reference never made. A known root cause explains
        // that only if its emulation contains every one of them (and ends where the real run ended);
        // otherwise the tracker is not telling the truth about what was tried.
        let explained = emulations(ctx).into_iter().any(|e| {
            let o = run_model(ctx, &e.opts);
            !o.exhausted && Some(o.end) == pe && w.hooks.trace.iter().all(|(rule, start, ok, _)| o.trace.iter().any(|a| a.rule == *rule && a.start == *start && a.ok == *ok))
        });
        if explained {
            l.count("truthfulness_inconclusive_known_divergence");
        } else if let Some((rule, start, ok, _)) = w.hooks.trace.iter().find(|(rule, start, ok, _)| !full.trace.iter().any(|a| a.rule == *rule && a.start == *start && a.ok == *ok)) {
            l.violation(
                "unclassified/C10/tracked-attempt-not-in-reference-trace",
                format!("the tracker recorded an attempt of {} at {} (matched: {}) that the reference interpreter never makes", rule, start, ok),
                ctx.witness(json!({"rule": rule, "position": start, "matched": ok})),
            );
        }
        return;
    }
    let pos = w.tracker_pos;
    for (_, expected, unexpected, _) in &w.attempts {
        for r in expected {
            l.count("expected_rules_checked");
            let truthful = full.trace.iter().any(|a| a.rule == *r && a.start == pos && !a.ok);
            if !truthful {
                l.violation(
                    "unclassified/C10/expected-rule-never-failed-there",
                    format!("report lists {} as expected at {}, but no attempt of {} fails there", r, pos, r),
                    ctx.witness(json!({"rule_listed": r, "position": pos})),
                );
            }
        }
        for r in unexpected {
            l.count("unexpected_rules_checked");
            let truthful = full.trace.iter().any(|a| a.rule == *r && a.start == pos && a.ok);
            if !truthful {
                l.violation(
                    "unclassified/C10/unexpected-rule-never-matched-there",
                    format!("report lists {} as unexpected at {}, but no attempt of {} matches there", r, pos, r),
                    ctx.witness(json!({"rule_listed": r, "position": pos})),
                );
            }
        }
    }
}

// ---------------------------------------------------------------------------------------------
// C11 (R3): bounded progress
// ---------------------------------------------------------------------------------------------

fn c11(ctx: &CaseCtx, obs: &CaseObs, full: &Outcome, l: &mut Local) {
    if full.zero_progress || full.exhausted {
        l.count("not_well_founded_skipped");
        return;
    }
    l.count_n("reference_steps", full.steps);
    l.count_n("hook_ticks", obs.hooks.ticks);
    let ratio = obs.hooks.ticks * 100 / (full.steps + 200);
    MAX_TICK_RATIO_X100.fetch_max(ratio, std::sync::atomic::Ordering::Relaxed);
    let mut over = |api: &str, p: Option<(&str, &str)>, l: &mut Local| {
        l.count("parses_with_step_budget");
        if let Some(("step-budget", m)) = p {
            l.violation(
                "unclassified/C11/step-budget-exceeded",
                format!("{} did not finish within 100 x {} + 50 000 logical steps ({})", api, full.steps, m),
                ctx.witness(json!({"api": api, "reference_steps": full.steps})),
            );
        }
    };
    over("try_parse_partial", obs.s.parse_partial.panicked(), l);
    over("try_check_partial", obs.s.check_partial.panicked(), l);
    over("try_parse", obs.s.parse.panicked(), l);
    over("try_check", obs.s.check.panicked(), l);
    for w in [&obs.with_parse, &obs.with_check].into_iter().flatten() {
        over("try_*_partial_with", w.panicked.as_ref().map(|(a, b)| (a.as_str(), b.as_str())), l);
    }
    // the sub-input forms parse the same window, so the same budget applies
    for (form, f) in [("Position", &obs.pos), ("Span", &obs.span)] {
        if let Some(f) = f {
            over(&format!("try_parse_partial({})", form), f.parse_partial.panicked(), l);
            over(&format!("try_check_partial({})", form), f.check_partial.panicked(), l);
            over(&format!("try_parse({})", form), f.parse.panicked(), l);
            over(&format!("try_check({})", form), f.check.panicked(), l);
        }
    }
}

// ---------------------------------------------------------------------------------------------
// C15: traversal helpers
// ---------------------------------------------------------------------------------------------

fn c15(ctx: &CaseCtx, obs: &CaseObs, exp: Option<&Expect>, l: &mut Local) {
    let n = match &obs.s.parse_partial {
        Res::Ok(n) => n,
        _ => return,
    };
    let root = match &n.as_token {
        Some(t) => t,
        None => return, // silent rule
    };
    l.count("pairs_checked");
    // every helper below is built on children(): if that primitive drops or invents tokens they all
    // agree with each other, so the token is also tied to the reference tree (what C02 does for
    // self_or_children); a difference explained by a known finding of C02 carries that name
    if let Some(exp) = exp {
        if exp.end == Some(n.end) {
            let want = prune(&exp.tokens, &ctx.model.kinds);
            l.count("tokens_tied_to_reference");
            if want.len() != 1 || want[0] != *root {
                let sig = classify_tree(ctx, "C15", std::slice::from_ref(root), Some(n.end));
                if sig.starts_with("C15/known/") {
                    // exactly the tree a known finding of C02 predicts (extra tokens below skip rules):
                    // the helpers enumerate the tree the library built, its content is C02's business
                    l.count("token_tree_differs_by_a_known_finding_of_C02");
                    return;
                }
                l.violation(
                    sig,
                    format!("as_token() (built from children()): typed {} reference {} ({})", tree_text(std::slice::from_ref(root)), tree_text(&want), exp.source),
                    ctx.witness(json!({"typed": tree_text(std::slice::from_ref(root)), "expected": tree_text(&want), "oracle": exp.source})),
                );
                return;
            }
        }
    }
    if let Some(ch) = &n.children {
        if *ch != root.children {
            l.violation("unclassified/C15/children", "children() differs from as_token().children", ctx.witness(json!({"children": tree_text(ch), "as_token": tree_text(&root.children)})));
        }
    }
    if let Some(thin) = &n.thin {
        if thin != root {
            l.violation("unclassified/C15/thin-token", "as_thin_token() differs from as_token()", ctx.witness(json!({"thin": tree_text(std::slice::from_ref(thin)), "as_token": tree_text(std::slice::from_ref(root))})));
        }
    }
    if let Some(sp) = n.span {
        if sp != (root.start, root.end) {
            l.violation("unclassified/C15/span", "span() differs from the token's offsets", ctx.witness(json!({"span": [sp.0, sp.1], "token": [root.start, root.end]})));
        }
    }
    if n.tokens.len() != 1 || n.tokens[0] != *root {
        l.violation("unclassified/C15/self-or-children", "self_or_children() of a non-silent rule is not its own token", ctx.witness(json!({"tokens": tree_text(&n.tokens)})));
    }
    // nesting and sibling order
    fn nested(t: &Tok) -> Option<String> {
        let mut at = t.start;
        for c in &t.children {
            if c.start < at || c.end > t.end || c.start > c.end {
                return Some(format!("child {}[{}..{}] of {}[{}..{}] out of order or outside", c.rule, c.start, c.end, t.rule, t.start, t.end));
            }
            at = c.end;
            if let Some(e) = nested(c) {
                return Some(e);
            }
        }
        None
    }
    if let Some(e) = nested(root) {
        l.violation("unclassified/C15/nesting", e, ctx.witness(json!({"tree": tree_text(std::slice::from_ref(root))})));
    }
    let tr = match &n.traversal {
        Some(t) => t,
        None => return, // atomic rule: no content, no PairTree
    };
    l.count("trees_traversed");
    // own depth-first
    let mut dfs: Vec<(String, usize, usize, usize)> = Vec::new();
    fn go(t: &Tok, d: usize, out: &mut Vec<(String, usize, usize, usize)>) {
        out.push((t.rule.clone(), t.start, t.end, d));
        for c in &t.children {
            go(c, d + 1, out);
        }
    }
    go(root, 0, &mut dfs);
    l.count_n("tokens_traversed", dfs.len() as u64);
    if tr.pre_order != dfs {
        l.violation("unclassified/C15/pre-order", format!("iterate_pre_order visits {:?}, depth-first order is {:?}", tr.pre_order, dfs), ctx.witness(json!({"tree": tree_text(std::slice::from_ref(root))})));
    }
    // own breadth-first
    let mut bfs: Vec<(String, usize, usize)> = Vec::new();
    let mut level: Vec<&Tok> = vec![root];
    while !level.is_empty() {
        let mut next = Vec::new();
        for t in level {
            bfs.push((t.rule.clone(), t.start, t.end));
            next.extend(t.children.iter());
        }
        level = next;
    }
    if tr.level_order != bfs {
        l.violation("unclassified/C15/level-order", format!("iterate_level_order visits {:?}, level order is {:?}", tr.level_order, bfs), ctx.witness(json!({"tree": tree_text(std::slice::from_ref(root))})));
    }
    // rendering
    let s = &ctx.case.s;
    let mut want = String::new();
    fn render(t: &Tok, d: usize, s: &str, out: &mut String) {
        if t.children.is_empty() {
            out.push_str(&format!("{}{} {:?}\n", "    ".repeat(d), t.rule, &s[t.start..t.end]));
        } else {
            out.push_str(&format!("{}{}\n", "    ".repeat(d), t.rule));
        }
        for c in &t.children {
            render(c, d + 1, s, out);
        }
    }
    render(root, 0, s, &mut want);
    if tr.format_as_tree != want {
        l.violation("unclassified/C15/format-as-tree", format!("format_as_tree gives {:?}, expected {:?}", tr.format_as_tree, want), ctx.witness(json!({"tree": tree_text(std::slice::from_ref(root))})));
    }
    // callback errors stop the walk
    let total = dfs.len();
    let want_seen = if total >= 2 { 2 } else { usize::MAX - total };
    if tr.pre_order_stop_seen != want_seen || tr.level_order_stop_seen != want_seen {
        l.violation(
            "unclassified/C15/error-propagation",
            format!("a callback error at the second token must stop the walk and be returned (pre {}, level {}, tokens {})", tr.pre_order_stop_seen, tr.level_order_stop_seen, total),
            ctx.witness(json!(null)),
        );
    }
}

// ---------------------------------------------------------------------------------------------
// C16: getters
// ---------------------------------------------------------------------------------------------

fn c16_compare(ctx: &CaseCtx, n: &NodeObs, model: &Outcome, l: &mut Local, count: bool) -> Vec<(String, String, Value)> {
    c16_compare_with(ctx, n, model, l, count, &ctx.model.shapes[ctx.rule.name], ctx.model.paths.get(ctx.rule.name))
}

fn c16_compare_with(
    ctx: &CaseCtx,
    n: &NodeObs,
    model: &Outcome,
    l: &mut Local,
    count: bool,
    shapes: &BTreeMap<String, String>,
    paths: Option<&BTreeMap<String, BTreeMap<usize, String>>>,
) -> Vec<(String, String, Value)> {
    let mut bad = Vec::new();
    for g in &n.getters {
        let want: Vec<&refpeg::Mention> = model.mentions.iter().filter(|m| m.name == g.name).collect();
        if count {
            l.count("getters_called");
            l.count_n("getter_nodes_expected", want.len() as u64);
            if !want.is_empty() {
                l.count("getters_with_nodes");
            }
        }
        if let Some(s) = shapes.get(&g.name) {
            if *s != g.shape {
                bad.push((
                    "unclassified/C16/shape".to_string(),
                    format!("getter {}() returns shape {}, the expression asks for {}", g.name, g.shape, s),
                    json!({"getter": g.name, "typed": g.shape, "expected": s}),
                ));
            }
        }
        if g.leaves.len() != want.len() {
            bad.push((
                "unclassified/C16/count".to_string(),
                format!("getter {}() yields {} nodes, the rule's own expression matched {} directly", g.name, g.leaves.len(), want.len()),
                json!({"getter": g.name, "typed": g.leaves.len(), "expected": want.iter().map(|m| (m.start, m.end)).collect::<Vec<_>>() }),
            ));
            continue;
        }
        // each node comes out of the tuple slot that belongs to its mention
        if let Some(pm) = paths.and_then(|p| p.get(&g.name)) {
            for (leaf, m) in g.leaves.iter().zip(want.iter()) {
                if let Some(want_path) = pm.get(&m.mention) {
                    if *want_path != leaf.path {
                        bad.push((
                            "unclassified/C16/slot".to_string(),
                            format!("getter {}(): the match of mention #{} at {}..{} comes out of tuple slot {:?}, its place in the expression is slot {:?}", g.name, m.mention, m.start, m.end, leaf.path, want_path),
                            json!({"getter": g.name, "mention": m.mention, "typed_slot": leaf.path, "expected_slot": want_path}),
                        ));
                        break;
                    }
                }
            }
        }
        let non_silent_user = matches!(ctx.model.kinds.get(&g.name), Some(k) if *k != Kind::Silent) || g.name == "EOI";
        if non_silent_user {
            for (leaf, m) in g.leaves.iter().zip(want.iter()) {
                let ok = leaf.tokens.len() == 1 && leaf.tokens[0].rule == g.name && leaf.tokens[0].start == m.start && leaf.tokens[0].end == m.end;
                if !ok {
                    bad.push((
                        "unclassified/C16/node".to_string(),
                        format!("getter {}(): node {} where the expression matched {}..{}", g.name, tree_text(&leaf.tokens), m.start, m.end),
                        json!({"getter": g.name, "typed": tree_text(&leaf.tokens), "expected": [m.start, m.end]}),
                    ));
                    break;
                }
            }
        }
    }
    bad
}

fn c16(ctx: &CaseCtx, obs: &CaseObs, full: &Outcome, exp: Option<&Expect>, l: &mut Local) {
    let exp = match exp {
        Some(e) => e,
        None => return,
    };
    let n = match &obs.s.parse_partial {
        Res::Ok(n) => n,
        _ => return,
    };
    if exp.end != Some(n.end) || full.end != exp.end {
        return;
    }
    // identity: the getter hands out the very nodes that the accessors reach inside the content
    if n.walk_events > 0 {
        for g in &n.getters {
            let stored: Vec<usize> = n.walk_addrs.iter().filter(|(name, _)| *name == g.name).map(|(_, a)| *a).collect();
            let handed: Vec<usize> = g.leaves.iter().map(|x| x.addr).collect();
            l.count("getter_identity_checks");
            if stored.len() == handed.len() && stored != handed {
                l.violation(
                    "unclassified/C16/identity",
                    format!("getter {}() returns nodes that are not (in this order) the {} nodes stored in the rule's content", g.name, g.name),
                    ctx.witness(json!({"getter": g.name, "positions_equal": stored.iter().zip(handed.iter()).map(|(a, b)| a == b).collect::<Vec<_>>() })),
                );
            }
        }
    }
    c16_noopt(ctx, l);
    let bad = c16_compare(ctx, n, full, l, true);
    if bad.is_empty() {
        return;
    }
    // a known root cause explains it only if its emulation predicts exactly what the getters return
    for e in emulations(ctx) {
        let o = run_model(ctx, &e.opts);
        if !o.exhausted && o.end == Some(n.end) && c16_compare(ctx, n, &o, l, false).is_empty() {
            let (_, what, wit) = &bad[0];
            l.violation(format!("C16/known/{}", e.name), what.clone(), ctx.witness(wit.clone()));
            return;
        }
    }
    for (sig, what, wit) in bad {
        l.violation(sig, what, ctx.witness(wit));
    }
}

/// Getters of the `pest_optimizer = false` build against the raw AST read the way that build reads it.
fn c16_noopt(ctx: &CaseCtx, l: &mut Local) {
    let raw = match &ctx.model.raw {
        Some(r) => r,
        None => return,
    };
    let v = match ctx.entry.variants.iter().find(|v| v.label == "noopt") {
        Some(v) => v,
        None => return,
    };
    let f = match v.rules.iter().find(|(n, _)| *n == ctx.rule.name) {
        Some((_, f)) => *f,
        None => return,
    };
    let shapes = match ctx.model.raw_shapes.get(ctx.rule.name) {
        Some(s) => s,
        None => return,
    };
    let o = exec_typed(f, ctx.case, ctx.cfg.groups, u64::MAX);
    let n = match &o.s.parse_partial {
        Res::Ok(n) => n,
        _ => return,
    };
    let mut candidates = vec![full_opts()];
    candidates.extend(emulations(ctx).into_iter().map(|e| e.opts));
    let mut first_bad = None;
    for opts in candidates {
        let m = refpeg::run(raw, ctx.rule.name, &ctx.case.s, 0, ctx.case.s.len(), &opts);
        if m.exhausted || m.zero_progress || m.end != Some(n.end) {
            continue;
        }
        l.count("noopt_getter_cases");
        let bad = c16_compare_with(ctx, n, &m, l, first_bad.is_none(), shapes, ctx.model.raw_paths.get(ctx.rule.name));
        if bad.is_empty() {
            return;
        }
        if first_bad.is_none() {
            first_bad = Some(bad);
        }
    }
    if let Some(bad) = first_bad {
        for (sig, what, wit) in bad {
            l.violation(sig.replace("unclassified/C16/", "unclassified/C16/optimizer-off/"), format!("pest_optimizer = false: {}", what), ctx.witness(wit));
        }
    }
}

// ---------------------------------------------------------------------------------------------
// C17: accessors (the generated walker reports directly)
// ---------------------------------------------------------------------------------------------

fn c17(ctx: &CaseCtx, obs: &CaseObs, full: &Outcome, exp: Option<&Expect>, l: &mut Local) {
    let exp = match exp {
        Some(e) => e,
        None => return,
    };
    let n = match &obs.s.parse_partial {
        Res::Ok(n) => n,
        _ => return,
    };
    if exp.end != Some(n.end) || full.end != exp.end {
        return;
    }
    l.count_n("accessor_events", n.walk_events);
    if n.walk_events > 0 {
        l.count("trees_walked");
    }
    for (sig, what) in &n.walk {
        l.violation(format!("unclassified/C17/{}", sig), what.clone(), ctx.witness(json!({"debug": n.debug})));
    }
    if ctx.kind() == Kind::Atomic || n.walk_events == 0 {
        return;
    }
    for e in &n.walk_list {
        let k = e.split(':').next().unwrap_or("").trim_end_matches(|c: char| c.is_ascii_digit() || c == '/');
        l.count(&format!("accessor_kind_{}", if k.is_empty() { "C" } else { k }));
    }
    if n.walk_list != full.events {
        for e in emulations(ctx) {
            let o = run_model(ctx, &e.opts);
            if !o.exhausted && o.end == Some(n.end) && o.events == n.walk_list {
                l.violation(format!("C17/known/{}", e.name), "accessors report the derivation of the known finding".to_string(), ctx.witness(json!({"accessors": n.walk_list, "model": full.events})));
                return;
            }
        }
        let at = n.walk_list.iter().zip(full.events.iter()).position(|(a, b)| a != b).unwrap_or(n.walk_list.len().min(full.events.len()));
        l.violation(
            "unclassified/C17/derivation",
            format!("accessors and reference derivation differ at event {}: accessors {:?}, reference {:?}", at, n.walk_list.get(at), full.events.get(at)),
            ctx.witness(json!({"accessors": n.walk_list, "model": full.events})),
        );
    }
}

// ---------------------------------------------------------------------------------------------
// C18: values
// ---------------------------------------------------------------------------------------------

fn c18(ctx: &CaseCtx, obs: &CaseObs, l: &mut Local) {
    let mut node = |api: &str, r: &Res<NodeObs>, l: &mut Local| {
        if let Res::Ok(n) = r {
            l.count("values_checked");
            if !n.clone_eq {
                l.violation("unclassified/C18/clone-eq", format!("{}: a clone does not compare equal to its original", api), ctx.witness(json!({"api": api, "debug": n.debug})));
            }
            if !n.clone_debug_eq {
                l.violation("unclassified/C18/clone-debug", format!("{}: a clone renders differently", api), ctx.witness(json!({"api": api})));
            }
            if !n.clone_hash_eq {
                l.violation("unclassified/C18/clone-hash", format!("{}: a clone hashes differently", api), ctx.witness(json!({"api": api})));
            }
        }
    };
    node("try_parse_partial(&str)", &obs.s.parse_partial, l);
    if let Some(f) = &obs.span {
        node("try_parse_partial(Span)", &f.parse_partial, l);
    }
    if let Some(f) = &obs.pos {
        node("try_parse_partial(Position)", &f.parse_partial, l);
    }
    if let Some((eq, hash, dbg)) = obs.s_again_equal {
        l.count("reparsed_twice");
        if !eq || !hash || !dbg {
            l.violation(
                "unclassified/C18/reparse",
                format!("parsing the same input object twice: equal={} same hash={} same Debug={}", eq, hash, dbg),
                ctx.witness(json!({"eq": eq, "hash": hash, "debug": dbg})),
            );
        }
    }
    // results through different sub-ranges of one string object (see drive: pair observations)
    if let Some(p) = &obs.pairs {
        l.count_n("result_pairs_compared", p.pairs);
        l.count_n("result_pairs_equal", p.equal);
        for (what, a, b) in &p.bad {
            l.violation(format!("unclassified/C18/{}", what), format!("two results from one string object: {} ({} vs {})", what, a, b), ctx.witness(json!({"a": a, "b": b})));
        }
    }
}

// ---------------------------------------------------------------------------------------------
// C20: option variants
// ---------------------------------------------------------------------------------------------

fn c20(ctx: &CaseCtx, obs: &CaseObs, exp: Option<&Expect>, l: &mut Local) {
    let _ = exp;
    let base = &obs.s.parse_partial;
    for v in &ctx.entry.variants {
        let f = match v.rules.iter().find(|(n, _)| *n == ctx.rule.name) {
            Some((_, f)) => *f,
            None => continue,
        };
        let o = exec_typed(f, ctx.case, ctx.cfg.groups, u64::MAX);
        l.count("variant_runs");
        l.count(&format!("variant_{}", v.label));
        let (a, b) = (base, &o.s.parse_partial);
        let same = match (a, b) {
            (Res::Ok(x), Res::Ok(y)) => x.end == y.end && x.tokens == y.tokens,
            (Res::Err(_), Res::Err(_)) => true,
            (x, y) => x.panicked().is_some() && y.panicked().is_some(),
        };
        if !same {
            let sig = classify_variant(ctx, v.label, a, b);
            l.violation(
                sig,
                format!("option set {}: try_parse_partial is {:?}, the default build gives {:?}", v.label, typed_end(b), typed_end(a)),
                ctx.witness(json!({"variant": v.label, "variant_result": format!("{:?}", typed_end(b)), "default_result": format!("{:?}", typed_end(a)),
                    "variant_tree": b.ok().map(|n| tree_text(&n.tokens)), "default_tree": a.ok().map(|n| tree_text(&n.tokens))})),
            );
        }
        // full parse verdict as well
        if o.s.parse.class() != obs.s.parse.class() && o.s.parse.ran() && obs.s.parse.ran() {
            let sig = classify_variant(ctx, v.label, a, b);
            l.violation(
                sig,
                format!("option set {}: try_parse is {}, the default build gives {}", v.label, o.s.parse.class(), obs.s.parse.class()),
                ctx.witness(json!({"variant": v.label})),
            );
        }
    }
}

/// Does the model outcome predict exactly this observation (verdict, consumed length, pruned tree)?
fn predicts(ctx: &CaseCtx, o: &Outcome, r: &Res<NodeObs>) -> bool {
    if o.exhausted {
        return false;
    }
    match r {
        Res::Ok(n) => o.end == Some(n.end) && prune(&o.tokens, &ctx.model.kinds) == n.tokens,
        Res::Err(_) => o.end.is_none(),
        _ => false,
    }
}

/// A difference between the `pest_optimizer = false` build and the default build carries the known
/// signature only if BOTH sides are what the models of that root cause predict: the default build
/// does what the optimized tree says, and the variant does what the raw tree says when its
/// counted repetitions are read as pest-typed reads them (`e (skip e)*`). A default build that is
/// itself off, or a variant that deviates in any other way, stays unclassified.
fn classify_variant(ctx: &CaseCtx, label: &str, base: &Res<NodeObs>, got: &Res<NodeObs>) -> String {
    if label.contains("noopt") {
        if let Ok(raw) = Grammar::raw(ctx.entry.grammar) {
            let has_counted = raw.rules.iter().any(|r| {
                let mut hit = false;
                r.expr.walk(&mut |n| {
                    if matches!(n, Node::RepOnce(_) | Node::RepExact(..) | Node::RepMin(..) | Node::RepMax(..) | Node::RepMinMax(..)) {
                        hit = true;
                    }
                });
                hit
            });
            if has_counted {
                let o = refpeg::run(&raw, ctx.rule.name, &ctx.case.s, 0, ctx.case.s.len(), &full_opts());
                if predicts(ctx, &o, got) && predicts(ctx, &run_model(ctx, &full_opts()), base) {
                    return "C20/known/optimizer-off-repetition-stops-before-trailing-skip".into();
                }
                // together with another known root cause (which the default build shows on this case too)
                for e in emulations(ctx) {
                    let o = refpeg::run(&raw, ctx.rule.name, &ctx.case.s, 0, ctx.case.s.len(), &e.opts);
                    if predicts(ctx, &o, got) && predicts(ctx, &run_model(ctx, &e.opts), base) {
                        return format!("C20/known/optimizer-off-repetition-stops-before-trailing-skip+{}", e.name);
                    }
                }
            }
        }
    }
    format!("unclassified/C20/variant-differs/{}", label)
}
