//! The parser pest_derive generates from the same grammar text: the reference wherever pest
//! has a defined answer.

use crate::obs::Tok;
use std::panic::{catch_unwind, AssertUnwindSafe};

#[derive(Clone, Debug, PartialEq)]
pub enum PestObs {
    /// Consumed offset (end of the wrapper token) and the tokens below the wrapper.
    Ok { end: usize, tokens: Vec<Tok> },
    Err { pos: usize },
    Panic(String),
}

impl PestObs {
    pub fn end(&self) -> Option<Option<usize>> {
        match self {
            PestObs::Ok { end, .. } => Some(Some(*end)),
            PestObs::Err { .. } => Some(None),
            PestObs::Panic(_) => None,
        }
    }
}

fn conv<R: pest::RuleType>(p: pest::iterators::Pair<'_, R>) -> Tok {
    let sp = p.as_span();
    Tok { rule: format!("{:?}", p.as_rule()), start: sp.start(), end: sp.end(), children: p.into_inner().map(conv).collect() }
}

/// Parse `input` with the wrapper rule `w__<rule> = { <rule> }`.
pub fn run_pest<P: pest::Parser<R>, R: pest::RuleType>(wrapper: R, input: &str) -> PestObs {
    let r = catch_unwind(AssertUnwindSafe(|| match P::parse(wrapper, input) {
        Ok(mut pairs) => match pairs.next() {
            Some(w) => {
                let end = w.as_span().end();
                PestObs::Ok { end, tokens: w.into_inner().map(conv).collect() }
            }
            None => PestObs::Panic("pest returned no wrapper token".into()),
        },
        Err(e) => {
            let pos = match e.location {
                pest::error::InputLocation::Pos(p) => p,
                pest::error::InputLocation::Span((a, _)) => a,
            };
            PestObs::Err { pos }
        }
    }));
    match r {
        Ok(o) => o,
        Err(e) => PestObs::Panic(vutil::panic_text(&*e)),
    }
}
