//! Work distribution: (grammar, rule) items over worker threads; per item the input set is
//! generated from the seed, every case is executed on the real code, on pest and on the
//! reference interpreter, and judged for the requested property.

use crate::judge::{self, CaseCtx, Model};
use crate::obs::CaseObs;
use crate::pestside::PestObs;
use crate::run::{grp, Inputs};
use serde_json::json;
use std::collections::{BTreeMap, HashMap};
use std::io::Write;
use std::sync::atomic::{AtomicUsize, Ordering};
use std::sync::{Arc, Mutex};
use vutil::{Args, Collector, Local, Rng};

pub type TypedFn = for<'i> fn(&Inputs<'i>, &mut CaseObs);

pub struct RuleEntry {
    pub name: &'static str,
    pub typed: TypedFn,
    pub pest: fn(&str) -> PestObs,
}

pub struct VariantEntry {
    pub label: &'static str,
    pub rules: Vec<(&'static str, TypedFn)>,
}

pub struct GrammarEntry {
    pub id: &'static str,
    pub family: &'static str,
    pub grammar: &'static str,
    pub rules: Vec<RuleEntry>,
    pub variants: Vec<VariantEntry>,
}

#[derive(Clone, Debug)]
pub struct PropCfg {
    pub families: &'static [&'static str],
    pub groups: u32,
    pub sentences: usize,
    pub mutations: usize,
    pub small_cap: usize,
    /// Also run padded variants (Position / Span forms get attractive neighbours).
    pub padded: bool,
    /// Also run all-cuts variants (C08).
    pub cuts: usize,
    pub variants: bool,
    /// Also enumerate skippable text at the gaps of skip-free sentences (C07, C03, C04).
    pub gaps: usize,
}

pub fn prop_cfg(prop: &str, thorough: bool) -> PropCfg {
    let k = if thorough { 6 } else { 1 };
    let all: &'static [&'static str] = &["core", "repo", "unicode", "kinds", "stack", "slice", "arity", "getter", "rec", "rand", "random"];
    let base = PropCfg { families: all, groups: grp::STR, sentences: 24 * k, mutations: 48 * k, small_cap: 400 * k, padded: false, cuts: 0, variants: false, gaps: 0 };
    match prop {
        "C01" => PropCfg { groups: grp::STR, gaps: 1, ..base },
        "C02" => PropCfg { groups: grp::STR | grp::TREE, ..base },
        "C03" => PropCfg { groups: grp::STR | grp::FORMS | grp::WITH, padded: true, gaps: 1, ..base },
        "C04" => PropCfg { groups: grp::STR | grp::EXTRA_ENTRY | grp::TREE | grp::FORMS, padded: true, gaps: 1, ..base },
        "C05" => PropCfg { families: &["stack", "slice", "repo", "random"], groups: grp::STR | grp::WITH, sentences: 40 * k, mutations: 80 * k, ..base },
        "C06" => PropCfg { families: &["slice", "stack"], groups: grp::STR | grp::WITH, sentences: 30 * k, mutations: 40 * k, ..base },
        "C07" => PropCfg { families: &["kinds"], groups: grp::STR | grp::TREE, sentences: 30 * k, mutations: 60 * k, small_cap: 800 * k, gaps: 4 * k, ..base },
        "C08" => PropCfg { groups: grp::STR | grp::TREE | grp::FORMS, padded: true, cuts: 6 * k, sentences: 16 * k, mutations: 24 * k, small_cap: 150 * k, ..base },
        "C09" => PropCfg { groups: grp::ALL, padded: true, sentences: 16 * k, mutations: 40 * k, small_cap: 200 * k, ..base },
        "C10" => PropCfg { groups: grp::STR | grp::WITH | grp::VALUE | grp::FORMS, padded: true, ..base },
        "C11" => PropCfg { groups: grp::STR | grp::WITH | grp::FORMS, padded: true, sentences: 12 * k, mutations: 16 * k, small_cap: 100 * k, ..base },
        "C15" => PropCfg { groups: grp::STR | grp::TREE | grp::TRAVERSAL, ..base },
        "C16" => PropCfg { groups: grp::STR | grp::TREE | grp::GETTERS | grp::WALK, variants: true, ..base },
        "C17" => PropCfg { families: &["arity", "unicode", "core", "repo", "stack", "getter", "random"], groups: grp::STR | grp::WALK, ..base },
        "C18" => PropCfg { groups: grp::STR | grp::VALUE | grp::TREE | grp::FORMS | grp::PAIRS, padded: true, sentences: 16 * k, mutations: 24 * k, small_cap: 200 * k, ..base },
        "C20" => PropCfg { families: &["rec", "core", "repo", "getter", "stack", "random"], groups: grp::STR | grp::TREE, variants: true, sentences: 16 * k, mutations: 24 * k, small_cap: 150 * k, ..base },
        _ => base,
    }
}

struct Shared {
    models: Mutex<HashMap<&'static str, Arc<Model>>>,
}

fn model_for(sh: &Shared, e: &GrammarEntry, seed: u64) -> Arc<Model> {
    if let Some(m) = sh.models.lock().unwrap().get(e.id) {
        return m.clone();
    }
    let m = Arc::new(Model::build(e.id, e.family, e.grammar, seed));
    sh.models.lock().unwrap().insert(e.id, m.clone());
    m
}

/// One executed case: strings plus where they came from.
pub struct CaseIn {
    pub pre: String,
    pub s: String,
    pub post: String,
    pub origin: &'static str,
}

fn cases_for(model: &Model, rule: &str, cfg: &PropCfg, rng: &mut Rng) -> Vec<CaseIn> {
    let mut v: Vec<CaseIn> = Vec::new();
    let mut inputs = refpeg::gen::inputs_for(&model.opt, rule, &model.alphabet, rng, cfg.sentences, cfg.mutations);
    let n_generated = inputs.len();
    let mut seen: std::collections::HashSet<String> = inputs.iter().cloned().collect();
    if cfg.gaps > 0 && (model.opt.whitespace.is_some() || model.opt.comment.is_some()) {
        for s in refpeg::gen::gap_inputs(&model.opt, rule, &model.alphabet, rng, cfg.gaps, 6) {
            if s.len() <= 4096 && seen.insert(s.clone()) {
                inputs.push(s);
            }
        }
    }
    if model.uses_stack.get(rule).copied().unwrap_or(false) {
        // stack-aware repair: wherever the reference interpreter tried to match stack contents, build the
        // input that has exactly that text there (a correct implementation gets past the point; a wrong
        // restore shows up as a different verdict instead of two coinciding rejections)
        // every single-character deletion / replacement of a few short sentences: the attempt that
        // pushed or popped something fails at each possible point
        let shorts: Vec<String> = inputs.iter().take(cfg.sentences).filter(|s| s.len() <= 40 && !s.is_empty()).take(10).cloned().collect();
        for u in shorts {
            let idx: Vec<usize> = u.char_indices().map(|(i, _)| i).collect();
            for (k, i) in idx.iter().enumerate() {
                let j = idx.get(k + 1).copied().unwrap_or(u.len());
                for cand in [format!("{}{}", &u[..*i], &u[j..]), format!("{}\u{1}{}", &u[..*i], &u[j..])] {
                    if seen.insert(cand.clone()) {
                        inputs.push(cand);
                    }
                }
            }
        }
        let mut base: Vec<String> = inputs.iter().rev().take(400).cloned().collect();
        base.extend(inputs.iter().take(120).cloned());
        for pass in 0..2 {
            let first_new = inputs.len();
            for u in base.iter() {
            let o = refpeg::run(&model.opt, rule, u, 0, u.len(), &refpeg::Opts::default());
            let mut done = 0;
            for (p, text) in o.stack_probes.iter().rev() {
                if *p > u.len() || !u.is_char_boundary(*p) || done >= 3 {
                    continue;
                }
                done += 1;
                for cand in [format!("{}{}", &u[..*p], text), format!("{}{}{}", &u[..*p], text, &u[*p..])] {
                    if cand.len() <= 4096 && seen.insert(cand.clone()) {
                        inputs.push(cand);
                    }
                }
            }
            }
            // second pass: repair the repaired inputs once more (two stack matches in a row)
            base = inputs[first_new..].iter().take(120).cloned().collect();
            let _ = pass;
        }
    }
    for s in model.small_scope.iter().take(cfg.small_cap).chain(model.hostile.iter()) {
        if seen.insert(s.clone()) {
            inputs.push(s.clone());
        }
    }
    for (i, s) in inputs.iter().enumerate() {
        let origin = if i < n_generated { "sentence-or-mutation" } else { "small-scope-or-hostile" };
        v.push(CaseIn { pre: String::new(), s: s.clone(), post: String::new(), origin });
        if cfg.padded && (i % 3 == 0) {
            let a = &model.alphabet;
            let pick = |rng: &mut Rng| -> String {
                match rng.below(5) {
                    0 => String::new(),
                    1 if !a.skippable.is_empty() => rng.pick(&a.skippable).clone(),
                    2 if !a.almost_skippable.is_empty() => rng.pick(&a.almost_skippable).clone(),
                    3 => ["é", "\n", "😀", " "][rng.below(4)].to_string(),
                    _ => a.any_token(rng),
                }
            };
            let mut pre = pick(rng);
            let mut post = pick(rng);
            if rng.chance(1, 4) {
                // the same text twice in one string object: windows with equal text at different offsets
                pre = s.clone();
            }
            if rng.chance(1, 3) {
                // continue the input itself: whatever could have matched next is right behind the end
                post = s.chars().rev().take(2).collect::<Vec<_>>().into_iter().rev().collect::<String>() + &post;
            }
            if !(pre.is_empty() && post.is_empty()) {
                v.push(CaseIn { pre, s: s.clone(), post, origin: "padded" });
            }
        }
    }
    if cfg.cuts > 0 {
        // every pair of char-boundary cuts of some inputs
        let mut budget = cfg.cuts * 40;
        for s in inputs.iter().filter(|s| s.len() >= 2).take(cfg.cuts * 4) {
            let b: Vec<usize> = (0..=s.len()).filter(|i| s.is_char_boundary(*i)).collect();
            let mut pairs: Vec<(usize, usize)> = Vec::new();
            for (i, x) in b.iter().enumerate() {
                for y in &b[i..] {
                    if !(*x == 0 && *y == s.len()) {
                        pairs.push((*x, *y));
                    }
                }
            }
            while pairs.len() > 24 {
                let k = rng.below(pairs.len());
                pairs.swap_remove(k);
            }
            for (x, y) in pairs {
                if budget == 0 {
                    break;
                }
                budget -= 1;
                v.push(CaseIn { pre: s[..x].to_string(), s: s[x..y].to_string(), post: s[y..].to_string(), origin: "cut" });
            }
        }
    }
    v
}

pub fn exec_typed(f: TypedFn, c: &CaseIn, groups: u32, budget: u64) -> CaseObs {
    // exact-capacity heap buffers: an out-of-range read lands outside the allocation
    let s: Box<str> = c.s.clone().into_boxed_str();
    let string: String = c.s.clone();
    let pos_parent: Box<str> = format!("{}{}", c.pre, c.s).into_boxed_str();
    let span_parent: Box<str> = format!("{}{}{}", c.pre, c.s, c.post).into_boxed_str();
    let inp = Inputs { s: &s, string: &string, pos_parent: &pos_parent, span_parent: &span_parent, pre_len: c.pre.len(), groups, budget };
    let mut obs = CaseObs::default();
    f(&inp, &mut obs);
    obs
}

pub fn main_with(entries: Vec<GrammarEntry>) {
    let args = Args::parse();
    vutil::quiet_panics();
    let prop: &'static str = Box::leak(args.str("prop", "C01").into_boxed_str());
    let seed = args.u64("seed", 1);
    let thorough = args.thorough();
    let jobs = vutil::jobs(&args);
    let mut cfg = prop_cfg(prop, thorough);
    if let Some(scale) = args.get("scale").and_then(|s| s.parse::<f64>().ok()) {
        cfg.sentences = ((cfg.sentences as f64) * scale).ceil() as usize;
        cfg.mutations = ((cfg.mutations as f64) * scale).ceil() as usize;
        cfg.small_cap = ((cfg.small_cap as f64) * scale).ceil() as usize;
    }
    let fam_override: Option<Vec<String>> = args.get("families").map(|s| s.split(',').map(|x| x.to_string()).collect());
    let only = args.get("only").map(|s| s.to_string());
    let replay: Option<serde_json::Value> = args.get("replay").map(|p| serde_json::from_str(&std::fs::read_to_string(p).expect("read replay")).expect("replay json"));
    let hb_path = args.get("heartbeat").map(|s| s.to_string());

    // work items
    let mut items: Vec<(usize, usize)> = Vec::new();
    let mut grammars = 0usize;
    for (gi, e) in entries.iter().enumerate() {
        let wanted = match &fam_override {
            Some(f) => f.iter().any(|x| x == e.family),
            None => cfg.families.contains(&e.family),
        };
        if !wanted {
            continue;
        }
        if let Some(r) = &replay {
            if r["witness"]["grammar_id"].as_str() != Some(e.id) {
                continue;
            }
        }
        grammars += 1;
        for (ri, r) in e.rules.iter().enumerate() {
            let key = format!("{}/{}", e.id, r.name);
            if let Some(o) = &only {
                if !key.starts_with(o.as_str()) {
                    continue;
                }
            }
            if let Some(rp) = &replay {
                if rp["witness"]["rule"].as_str() != Some(r.name) {
                    continue;
                }
            }
            items.push((gi, ri));
        }
    }
    // optional thinning of the work list (used by the slow interpreters)
    let offset = args.u64("rule-offset", 0) as usize;
    let max_input_len: Option<usize> = args.get("max-input-len").and_then(|s| s.parse::<usize>().ok());
    if let Some(max) = args.get("max-rules").and_then(|s| s.parse::<usize>().ok()) {
        items = items.into_iter().skip(offset).take(max).collect();
    }
    let shared = Shared { models: Mutex::new(HashMap::new()) };
    let next = AtomicUsize::new(0);
    let col = Collector::new();
    let t0 = std::time::Instant::now();
    let families_seen: Mutex<BTreeMap<String, u64>> = Mutex::new(BTreeMap::new());
    vutil::run_workers(jobs, &col, |w, _| {
        let mut l = Local::new();
        let mut hb = hb_path.as_ref().map(|p| std::fs::File::create(format!("{}.{}", p, w)).expect("heartbeat file"));
        loop {
            let k = next.fetch_add(1, Ordering::SeqCst);
            if k >= items.len() {
                break;
            }
            let (gi, ri) = items[k];
            let e = &entries[gi];
            let r = &e.rules[ri];
            let model = model_for(&shared, e, seed);
            if let Some(err) = &model.error {
                l.inconclusive.push(format!("grammar {} is not accepted by pest_meta: {}", e.id, err));
                continue;
            }
            let mut rng = Rng::new(seed).derive(vutil::fnv(format!("{}/{}", e.id, r.name).as_bytes()));
            let cases: Vec<CaseIn> = match &replay {
                Some(rp) => {
                    let w = &rp["witness"];
                    vec![CaseIn {
                        pre: w["pre"].as_str().unwrap_or("").to_string(),
                        s: w["input"].as_str().unwrap_or("").to_string(),
                        post: w["post"].as_str().unwrap_or("").to_string(),
                        origin: "replay",
                    }]
                }
                None => cases_for(&model, r.name, &cfg, &mut rng),
            };
            // interpreters that are four orders of magnitude slower (Miri) bound the work by input size
            let cases: Vec<CaseIn> = match max_input_len {
                Some(m) => cases.into_iter().filter(|c| c.pre.len() + c.s.len() + c.post.len() <= m).collect(),
                None => cases,
            };
            *families_seen.lock().unwrap().entry(e.family.to_string()).or_default() += cases.len() as u64;
            l.count("rules_driven");
            let blown_before = l.counters.get("step_budget_blowups").copied().unwrap_or(0);
            for (ci, c) in cases.iter().enumerate() {
                // a rule on which the step budget (100 x the reference + 50 000) was exceeded 25 times does
                // not terminate in reasonable time on this tree: C11 has its violations, and every further
                // case would only burn the whole budget again
                if l.counters.get("step_budget_blowups").copied().unwrap_or(0) >= blown_before + 25 {
                    l.count_n("cases_skipped_after_repeated_step_budget_blowups", (cases.len() - ci) as u64);
                    break;
                }
                if let Some(f) = hb.as_mut() {
                    use std::os::unix::fs::FileExt;
                    let line = json!({"grammar_id": e.id, "rule": r.name, "index": ci, "pre": c.pre, "input": c.s, "post": c.post}).to_string() + "\n";
                    let mut buf = line.into_bytes();
                    buf.resize(buf.len().max(8192), b' ');
                    let _ = f.write_at(&buf, 0);
                }
                let ctx = CaseCtx { prop, entry: e, rule: r, model: &model, case: c, index: ci, cfg: &cfg };
                judge::run_and_judge(&ctx, &mut l);
            }
        }
        if let Some(f) = hb.as_mut() {
            use std::os::unix::fs::FileExt;
            let mut buf = b"\"DONE\"\n".to_vec();
            buf.resize(8192, b' ');
            let _ = f.write_at(&buf, 0);
            let _ = f.flush();
        }
        l
    });
    let fam = families_seen.into_inner().unwrap();
    let doc = col.finish(json!({
        "prop": prop,
        "programs": grammars,
        "rules": items.len(),
        "cases_by_family": fam,
        "engine_wall_s": t0.elapsed().as_secs_f64(),
        "debug_assertions": cfg!(debug_assertions),
        "groups": cfg.groups,
        "max_tick_ratio_x100": judge::MAX_TICK_RATIO_X100.load(std::sync::atomic::Ordering::Relaxed),
    }));
    vutil::write_out(&args, &doc);
}
