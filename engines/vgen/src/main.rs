//! vgen: corpus loading / generation, harness source emission, and the generator-level
//! monitors (C11, C20 determinism).

mod corpus;
mod emit;
mod genmon;
mod senum;

use serde_json::json;
use std::path::{Path, PathBuf};
use vutil::Args;

fn write_if_changed(path: &Path, text: &str) -> bool {
    if let Ok(old) = std::fs::read_to_string(path) {
        if old == text {
            return false;
        }
    }
    std::fs::write(path, text).expect("write generated source");
    true
}

fn emit(args: &Args) {
    let out = PathBuf::from(args.str("harness", "/verif/engines/harness"));
    let corpus_dir = PathBuf::from(args.str("corpus", "/verif/corpus"));
    let repo = PathBuf::from(args.str("repo", "/repo"));
    let shards = args.u64("shards", 16) as usize;
    let thorough = args.thorough();
    let seed = args.u64("seed", 1);
    let only: Option<Vec<String>> = args.get("families").map(|s| s.split(',').map(|x| x.to_string()).collect());
    let mut c = corpus::load(&corpus_dir, &repo, thorough, seed);
    let extras = cfg!(feature = "extras");
    // the grammar-extras configuration (`e+` kept as RepOnce, `#tag = e` kept as NodeTag) drives the
    // family written for it plus the committed grammars that use `+` or tags most
    const X_SHARED: [&str; 14] = ["core_ops", "core_ws", "core_both", "core_kinds", "core_json", "core_wsplus", "core_commentplus", "core_pred", "stack_basic", "stack_indent", "repo_grammar", "repo_json", "repo_syntax", "repo_csv"];
    if extras {
        c.grammars.retain(|g| g.family == "extras" || g.family == "getter" || g.family == "rec" || g.family == "arity" || X_SHARED.contains(&g.id.as_str()));
        // a committed grammar of another family may be invalid under grammar-extras (a tag on a silent rule)
        c.rejected.retain(|(id, _)| id.starts_with("extras_"));
    } else {
        c.grammars.retain(|g| g.family != "extras");
        c.rejected.retain(|(id, _)| !id.starts_with("extras_"));
    }
    let prefix = if extras { "x" } else { "s" };
    let mut mods: Vec<(String, String, usize, String)> = Vec::new(); // id, text, rules, family
    let mut problems = Vec::new();
    for (id, e) in &c.rejected {
        problems.push(format!("{}: {}", id, e));
    }
    for g in &c.grammars {
        if let Some(f) = &only {
            if !f.contains(&g.family) {
                continue;
            }
        }
        let with_variants = matches!(g.family.as_str(), "rec" | "getter" | "random" | "extras") || (g.family == "rand" && g.id.ends_with(|c: char| c == '0' || c == '3' || c == '6' || c == '9')) || ["core_ops", "core_ws", "core_both", "core_kinds", "core_pred", "core_json", "core_empty", "core_wsplus", "core_commentplus", "core_skipuntil", "core_nonormal", "core_cntexact", "core_cntmax", "core_cntmin", "core_cntminmax", "core_single", "core_singlerec", "stack_basic", "stack_nested", "repo_csv"].contains(&g.id.as_str());
        let with_walker = g.family != "kinds" && g.family != "slice";
        match emit::grammar_module(g, with_variants, with_walker) {
            Ok(m) => mods.push((g.id.clone(), m.text, m.rules * if with_variants { 5 } else { 1 }, g.family.clone())),
            Err(e) => problems.push(format!("{}: {}", g.id, e)),
        }
    }
    // shards are homogeneous in family (a property only builds the families it drives);
    // within a family grammars are balanced by rule count (largest first)
    mods.sort_by(|a, b| b.2.cmp(&a.2).then(a.0.cmp(&b.0)));
    let mut fam_weight: std::collections::BTreeMap<String, usize> = Default::default();
    for m in &mods {
        *fam_weight.entry(m.3.clone()).or_default() += m.2.max(1);
    }
    let _ = shards;
    let mut bins: Vec<(usize, Vec<usize>)> = Vec::new();
    let mut bin_family: Vec<String> = Vec::new();
    for (fam, w) in &fam_weight {
        let count = mods.iter().filter(|m| &m.3 == fam).count();
        // a fixed target weight per shard keeps the shard layout of a family independent of which
        // other families are present (quick vs thorough), so switching tiers does not force rebuilds
        let k = ((*w + 149) / 150).max(1).min(count.max(1));
        let first = bins.len();
        for _ in 0..k {
            bins.push((0, Vec::new()));
            bin_family.push(fam.clone());
        }
        for (i, m) in mods.iter().enumerate() {
            if &m.3 != fam {
                continue;
            }
            let b = (first..first + k).min_by_key(|b| bins[*b].0).unwrap();
            bins[b].0 += m.2.max(1);
            bins[b].1.push(i);
        }
    }
    let shards = bins.len();
    let bin_dir = out.join("src").join("bin");
    std::fs::create_dir_all(&bin_dir).unwrap();
    let mut listing = Vec::new();
    let mut changed = 0;
    for (k, (w, idxs)) in bins.iter().enumerate() {
        let texts: Vec<String> = idxs.iter().map(|i| mods[*i].1.clone()).collect();
        let ids: Vec<String> = idxs.iter().map(|i| mods[*i].0.clone()).collect();
        let src = emit::shard_bin(&texts, &ids);
        let first_of_family = bin_family.iter().position(|f| *f == bin_family[k]).unwrap();
        let name = format!("{}_{}_{}", prefix, bin_family[k], k - first_of_family);
        if write_if_changed(&bin_dir.join(format!("{}.rs", name)), &src) {
            changed += 1;
        }
        listing.push(json!({"bin": name, "weight": w, "grammars": ids, "family": bin_family[k]}));
    }
    // remove stale shard files
    let live: Vec<String> = listing.iter().map(|l| format!("{}.rs", l["bin"].as_str().unwrap())).collect();
    if let Ok(rd) = std::fs::read_dir(&bin_dir) {
        for e in rd.flatten() {
            let n = e.file_name().to_string_lossy().to_string();
            if (n.starts_with("shard_") || n.starts_with(&format!("{}_", prefix))) && n.ends_with(".rs") && !live.contains(&n) {
                let _ = std::fs::remove_file(e.path());
            }
        }
    }
    let doc = json!({
        "shards": listing,
        "grammars": mods.iter().map(|m| json!({"id": m.0, "family": m.3, "weight": m.2})).collect::<Vec<_>>(),
        "problems": problems,
        "changed_files": changed,
    });
    vutil::write_out(args, &doc);
}

fn main() {
    let args = Args::parse();
    match args.str("cmd", "emit").as_str() {
        "emit" => emit(&args),
        "c11" => genmon::c11(&args),
        "c20det" => genmon::c20_determinism(&args),
        "print" => genmon::print_tokens(&args),
        "randdump" => {
            // write seeded random grammars as corpus files (done once; the files are committed)
            let mut rng = vutil::Rng::new(args.u64("seed", 424242));
            let dir = PathBuf::from(args.str("dir", "/verif/corpus"));
            let count = args.u64("count", 24) as usize;
            let mut made = 0;
            while made < count {
                let text = corpus::random_grammar(&mut rng, made % 3 == 0);
                if refpeg::Grammar::optimized(&text).is_ok() {
                    let header = format!("// seeded random grammar (vgen --cmd randdump --seed {}), valid for pest and well-founded by construction\n", args.u64("seed", 424242));
                    std::fs::write(dir.join(format!("rand_{:02}.pest", made)), header + &text).unwrap();
                    made += 1;
                }
            }
        }
        other => panic!("unknown --cmd {}", other),
    }
}
