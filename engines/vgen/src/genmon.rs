//! Generator-level monitors (filled in below).
use vutil::Args;
pub fn c11(_args: &Args) {}
pub fn c20_determinism(_args: &Args) {}
pub fn print_tokens(_args: &Args) {}
