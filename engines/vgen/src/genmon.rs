//! Generator-level monitors: the real `pest_typed_generator::derive_typed_parser` is called as a
//! library under `catch_unwind`.
//!
//! * C11 (R1/R2): ill-formed grammars must be refused exactly when pest_meta's validator refuses
//!   them for one of the four stated categories; grammars pest accepts must not make the
//!   generator panic.
//! * C20 (R1): the token stream for a grammar and option set must be identical across processes.

use crate::corpus;
use quote::quote;
use serde_json::json;
use std::collections::BTreeMap;
use std::panic::{catch_unwind, AssertUnwindSafe};
use std::path::PathBuf;
use vutil::{Args, Collector, Local, Rng};

/// pest_meta's verdict on a grammar text.
#[derive(Debug, Clone, PartialEq)]
enum PestVerdict {
    SyntaxError,
    /// validate_pairs (undefined / duplicate rules, keywords): outside C11's four categories
    OtherError(String),
    /// validate_ast: the category of the first matching message
    Rejected(&'static str, String),
    Accepted,
}

fn category(msg: &str) -> Option<&'static str> {
    let m = msg;
    if m.contains("left-recursive") {
        Some("left-recursion")
    } else if m.contains("WHITESPACE") || m.contains("COMMENT") {
        if m.contains("non-progressing") || m.contains("cannot fail") || m.contains("infinitely") {
            Some("non-progressing-skip-rule")
        } else {
            None
        }
    } else if m.contains("inside repetition") || m.contains("repeat infinitely") || m.contains("is non-progressing") || m.contains("non-progressing") {
        Some("repetition-body-cannot-fail-or-progress")
    } else if m.contains("cannot be reached") || m.contains("following choices") {
        Some("unreachable-alternative")
    } else if m.contains("cannot fail") {
        Some("repetition-body-cannot-fail-or-progress")
    } else {
        None
    }
}

fn pest_verdict(text: &str) -> PestVerdict {
    use pest_meta::parser::{self, Rule};
    let pairs = match parser::parse(Rule::grammar_rules, text) {
        Ok(p) => p,
        Err(_) => return PestVerdict::SyntaxError,
    };
    let early = pest_meta::validator::validate_pairs(pairs.clone()).err();
    match catch_unwind(AssertUnwindSafe(|| parser::consume_rules(pairs))) {
        Ok(Ok(_)) => match early {
            Some(es) => PestVerdict::OtherError(es.iter().map(|e| format!("{}", e.variant.message())).collect::<Vec<_>>().join(" | ")),
            None => PestVerdict::Accepted,
        },
        Ok(Err(es)) => {
            let msgs: Vec<String> = es.iter().map(|e| format!("{}", e.variant.message())).collect();
            for m in &msgs {
                if let Some(c) = category(m) {
                    return PestVerdict::Rejected(c, msgs.join(" | "));
                }
            }
            PestVerdict::OtherError(msgs.join(" | "))
        }
        Err(_) => PestVerdict::OtherError("pest_meta panicked".into()),
    }
}

/// Run the real generator; Ok(token text) or Err(panic message).
fn generate(text: &str, attrs: &str) -> Result<String, String> {
    let attrs: proc_macro2::TokenStream = attrs.parse().unwrap_or_default();
    let input = quote! {
        #[grammar_inline = #text]
        #attrs
        struct Parser;
    };
    catch_unwind(AssertUnwindSafe(|| pest_typed_generator::derive_typed_parser(input, false, true).to_string())).map_err(|e| vutil::panic_text(&*e))
}

/// The same grammar given as two `#[grammar_inline]` sources (split before a rule definition).
fn generate_split(text: &str) -> Option<Result<String, String>> {
    let starts: Vec<usize> = text
        .match_indices('\n')
        .map(|(i, _)| i + 1)
        .filter(|i| {
            let rest = &text[*i..];
            let id: String = rest.chars().take_while(|c| c.is_alphanumeric() || *c == '_').collect();
            !id.is_empty() && rest[id.len()..].trim_start().starts_with('=')
        })
        .collect();
    let cut = *starts.get(starts.len() / 2)?;
    let (a, b) = (&text[..cut], &text[cut..]);
    let input = quote! {
        #[grammar_inline = #a]
        #[grammar_inline = #b]
        struct Parser;
    };
    Some(catch_unwind(AssertUnwindSafe(|| pest_typed_generator::derive_typed_parser(input, false, true).to_string())).map_err(|e| vutil::panic_text(&*e)))
}

/// Deliberately ill-formed grammars by category, plus well-formed look-alikes.
fn invalid_family() -> Vec<(String, String)> {
    let mut v: Vec<(String, String)> = Vec::new();
    let mut add = |name: &str, g: &str| v.push((name.to_string(), g.to_string()));
    // direct and indirect left recursion, through optionals, predicates, silent rules, PUSH, repetition
    let lr_bodies = [
        ("direct", "a = { a ~ \"x\" }"),
        ("direct_choice", "a = { \"x\" | a ~ \"y\" }"),
        ("indirect2", "a = { b ~ \"x\" }\nb = { a ~ \"y\" | \"z\" }"),
        ("indirect3", "a = { b }\nb = { c ~ \"y\" }\nc = { \"q\"? ~ a }"),
        ("through_opt", "a = { \"x\"? ~ a ~ \"y\" }"),
        ("through_rep", "a = { \"x\"* ~ a }"),
        ("through_pos", "a = { &\"x\" ~ a ~ \"y\" }"),
        ("through_neg", "a = { !\"x\" ~ a ~ \"y\" }"),
        ("through_silent", "a = { s ~ \"y\" }\ns = _{ a ~ \"x\" }"),
        ("through_push", "a = { PUSH(a) ~ \"x\" }"),
        ("through_push_empty", "a = { PUSH(\"\") ~ a }"),
        ("through_atomic", "a = @{ b }\nb = ${ a ~ \"x\" }"),
        ("through_empty_str", "a = { \"\" ~ a }"),
        ("through_soi", "a = { SOI ~ a ~ \"x\" }"),
        ("in_rep", "a = { (a ~ \"x\")* }"),
        ("in_choice_last", "a = { \"x\" ~ \"y\" | \"z\" | a }"),
        ("mutual_opt", "a = { b? ~ \"x\" }\nb = { a }"),
        ("nonatomic", "a = !{ a ~ \"x\" }"),
    ];
    for (n, g) in lr_bodies {
        add(&format!("lr_{}", n), g);
        add(&format!("lr_{}_ws", n), &format!("WHITESPACE = _{{ \" \" }}\n{}", g));
    }
    // repetition whose body cannot fail or cannot progress
    let rep_bodies = [
        ("opt_star", "a = { (\"x\"?)* }"),
        ("star_star", "a = { (\"x\"*)* }"),
        ("star_plus", "a = { (\"x\"*)+ }"),
        ("empty_star", "a = { \"\"* }"),
        ("pred_star", "a = { (&\"x\")* }"),
        ("neg_star", "a = { (!\"x\")* }"),
        ("soi_star", "a = { SOI* }"),
        ("rule_opt_star", "a = { b* }\nb = { \"x\"? }"),
        ("seq_opt_star", "a = { (\"x\"? ~ \"y\"?)* }"),
        ("choice_empty_star", "a = { (\"x\" | \"\")* }"),
        ("counted", "a = { (\"x\"?){2,} }"),
        ("push_empty_star", "a = { PUSH(\"\")* }"),
        ("eoi_star", "a = { EOI* }"),
        ("silent_opt_plus", "a = { s+ }\ns = _{ \"x\"* }"),
        ("atomic_rep", "a = @{ (\"x\"?)* }"),
    ];
    for (n, g) in rep_bodies {
        add(&format!("rep_{}", n), g);
    }
    // unreachable alternatives
    let unreach = [
        ("opt_first", "a = { \"x\"? | \"y\" }"),
        ("star_first", "a = { \"x\"* | \"y\" }"),
        ("empty_first", "a = { \"\" | \"y\" }"),
        ("rule_first", "a = { b | \"y\" }\nb = { \"x\"? }"),
        ("neg_any", "a = { !ANY | \"y\" }"),
        ("nested", "a = { (\"x\" | \"y\"?) | \"z\" }"),
        ("pred_first", "a = { &\"\" | \"y\" }"),
        ("mid", "a = { \"x\" | \"y\"* | \"z\" }"),
    ];
    for (n, g) in unreach {
        add(&format!("unreach_{}", n), g);
    }
    // non-progressing / non-failing skip rules
    let skips = [
        ("ws_opt", "WHITESPACE = _{ \" \"? }\na = { \"x\" ~ \"y\" }"),
        ("ws_star", "WHITESPACE = _{ \" \"* }\na = { \"x\" ~ \"y\" }"),
        ("ws_empty", "WHITESPACE = _{ \"\" }\na = { \"x\" ~ \"y\" }"),
        ("ws_pred", "WHITESPACE = _{ &\" \" }\na = { \"x\" ~ \"y\" }"),
        ("comment_opt", "COMMENT = _{ \"#\"? }\na = { \"x\" ~ \"y\" }"),
        ("comment_star", "COMMENT = _{ (\"#\" ~ \"!\")* }\na = { \"x\" ~ \"y\" }"),
        ("ws_rule_opt", "WHITESPACE = _{ s }\ns = { \" \"? }\na = { \"x\" ~ \"y\" }"),
        ("ws_soi", "WHITESPACE = _{ SOI }\na = { \"x\" ~ \"y\" }"),
    ];
    for (n, g) in skips {
        add(&format!("skip_{}", n), g);
    }
    // well-formed look-alikes (must be accepted and generate)
    let fine = [
        ("guarded_rec", "a = { \"x\" ~ a | \"y\" }"),
        ("opt_last", "a = { \"y\" | \"x\"? }"),
        ("rep_ok", "a = { (\"x\" ~ \"y\"?)* }"),
        ("ws_ok", "WHITESPACE = _{ \" \" }\na = { \"x\" ~ \"y\" }"),
        ("pred_guard", "a = { !\"y\" ~ \"x\" ~ a? }"),
        ("push_rec", "a = { PUSH(\"x\") ~ a? ~ POP }"),
    ];
    for (n, g) in fine {
        add(&format!("fine_{}", n), g);
    }
    v
}

/// One random textual edit of a grammar (may or may not keep it well-formed).
fn edit(text: &str, rng: &mut Rng) -> String {
    let ops: [(&str, &str); 14] = [
        ("+", "*"),
        ("+", "?"),
        ("*", "?"),
        ("\" ~ ", "\"? ~ "),
        (" ~ ", " | "),
        (" | ", " ~ "),
        ("= {", "= _{"),
        ("= {", "= @{"),
        ("(", "(\"\" | "),
        ("\"a\"", "\"\""),
        (")*", "?)*"),
        (")+", "*)+"),
        ("!", "&"),
        ("{ ", "{ \"\"? ~ "),
    ];
    for _ in 0..8 {
        let (from, to) = ops[rng.below(ops.len())];
        let hits: Vec<usize> = text.match_indices(from).map(|(i, _)| i).collect();
        if hits.is_empty() {
            continue;
        }
        let at = hits[rng.below(hits.len())];
        return format!("{}{}{}", &text[..at], to, &text[at + from.len()..]);
    }
    // reference a rule from itself at the front of its body
    if let Some(eq) = text.find("= {") {
        let name: String = text[..eq].lines().last().unwrap_or("").trim().to_string();
        if !name.is_empty() {
            return format!("{}= {{ {} ~ {}", &text[..eq], name, &text[eq + 3..]);
        }
    }
    text.to_string()
}

pub fn c11(args: &Args) {
    vutil::quiet_panics();
    let corpus_dir = PathBuf::from(args.str("corpus", "/verif/corpus"));
    let repo = PathBuf::from(args.str("repo", "/repo"));
    let thorough = args.thorough();
    let seed = args.u64("seed", 1);
    let jobs = vutil::jobs(args);
    let c = corpus::load(&corpus_dir, &repo, thorough, seed);
    let mut cases: Vec<(String, String)> = invalid_family();
    // the corpus itself (valid) and seeded single edits of it
    let valid: Vec<(String, String)> = c.raw_texts.iter().filter(|(id, _)| !id.starts_with("unicode_") && !id.starts_with("kinds_") && !id.starts_with("slice_")).cloned().collect();
    for (id, text) in &valid {
        cases.push((format!("corpus:{}", id), text.clone()));
    }
    let mut rng = Rng::new(seed).derive(11);
    let edits = if thorough { 2500 } else { 500 };
    for k in 0..edits {
        let (id, text) = &valid[rng.below(valid.len())];
        let mut e = edit(text, &mut rng);
        if rng.chance(1, 3) {
            e = edit(&e, &mut rng);
        }
        cases.push((format!("edit{}:{}", k, id), e));
    }
    if thorough {
        let mut made = 0;
        while made < 300 {
            let g = corpus::random_grammar(&mut rng, made % 3 == 0);
            cases.push((format!("random{}", made), g.clone()));
            cases.push((format!("random{}e", made), edit(&g, &mut rng)));
            made += 1;
        }
    }
    let col = Collector::new();
    vutil::run_workers(jobs, &col, |w, n| {
        let mut l = Local::new();
        for (k, (name, text)) in cases.iter().enumerate() {
            if k % n != w {
                continue;
            }
            l.evaluations += 1;
            let pv = pest_verdict(text);
            if pv == PestVerdict::SyntaxError {
                l.count("skipped_syntax_error");
                continue;
            }
            l.nontrivial += 1;
            let gen = generate(text, "");
            let wit = || json!({"name": name, "grammar": text, "pest_meta": format!("{:?}", pv), "generator": match &gen { Ok(_) => "returned code".to_string(), Err(e) => format!("panicked: {}", e.chars().take(300).collect::<String>()) }});
            match (&pv, &gen) {
                (PestVerdict::Rejected(cat, _), Ok(_)) => {
                    l.count(&format!("rejected_by_pest_{}", cat));
                    l.violation(format!("unclassified/C11/accepted-ill-formed-grammar/{}", cat), format!("pest's validator rejects the grammar ({}) but the generator emits code", cat), wit());
                }
                (PestVerdict::Rejected(cat, _), Err(_)) => {
                    l.count(&format!("rejected_by_pest_{}", cat));
                    l.count("refused_by_both");
                }
                (PestVerdict::Accepted, Err(e)) => {
                    l.count("accepted_by_pest");
                    l.violation("unclassified/C11/generator-panics-on-valid-grammar", format!("pest accepts the grammar but the generator panics: {}", e.chars().take(200).collect::<String>()), wit());
                }
                (PestVerdict::Accepted, Ok(code)) => {
                    l.count("accepted_by_pest");
                    l.count("generated_for_valid");
                    if code.is_empty() {
                        l.violation("unclassified/C11/empty-output", "the generator returned no code for a valid grammar", wit());
                    }
                }
                (PestVerdict::OtherError(_), _) => l.count("other_pest_error_outside_the_four_categories"),
                (PestVerdict::SyntaxError, _) => {}
            }
            // several grammar sources are one grammar: same verdict as for the concatenation
            if let Some(split) = generate_split(text) {
                l.count("two_source_derives");
                match (&pv, &split) {
                    (PestVerdict::Rejected(cat, _), Ok(_)) => l.violation(
                        format!("unclassified/C11/accepted-ill-formed-grammar-in-two-sources/{}", cat),
                        format!("given as two #[grammar_inline] sources the grammar is accepted although pest's validator rejects it ({})", cat),
                        wit(),
                    ),
                    (PestVerdict::Accepted, Err(e)) => l.violation(
                        "unclassified/C11/generator-panics-on-valid-grammar-in-two-sources",
                        format!("given as two #[grammar_inline] sources the generator panics: {}", e.chars().take(200).collect::<String>()),
                        wit(),
                    ),
                    (PestVerdict::Accepted, Ok(code)) => {
                        if let Ok(one) = &gen {
                            if one != code {
                                l.count("two_source_output_differs_from_single_source");
                            }
                        }
                    }
                    _ => {}
                }
            }
            if k % 41 == 3 {
                l.sample(json!({"name": name, "grammar": text.chars().take(200).collect::<String>(), "pest_meta": format!("{:?}", pv).chars().take(160).collect::<String>(), "generator_refused": gen.is_err()}));
            }
        }
        l
    });
    let doc = col.finish(json!({
        "rule": "evaluation = one grammar text given to pest_meta (parse, validate_pairs, validate_ast) and to the real derive_typed_parser under catch_unwind; non-trivial = the text is syntactically a grammar; texts: hand-made ill-formed family (4 categories, with well-formed look-alikes), every corpus grammar, seeded single/double edits of corpus grammars (thorough: + random grammars and their edits)",
    }));
    vutil::write_out(args, &doc);
}

pub fn c20_determinism(args: &Args) {
    vutil::quiet_panics();
    let corpus_dir = PathBuf::from(args.str("corpus", "/verif/corpus"));
    let repo = PathBuf::from(args.str("repo", "/repo"));
    let c = corpus::load(&corpus_dir, &repo, args.thorough(), args.u64("seed", 1));
    let mut map: BTreeMap<String, String> = BTreeMap::new();
    let mut variants: Vec<(&str, &str)> = vec![("default", "")];
    variants.extend(crate::emit::VARIANTS.iter().copied());
    for (id, text) in &c.raw_texts {
        for (label, attrs) in &variants {
            let r = generate(text, attrs);
            let v = match r {
                Ok(code) => format!("{}:{:016x}", code.len(), vutil::fnv(code.as_bytes())),
                Err(e) => format!("panic:{}", e.chars().take(80).collect::<String>()),
            };
            map.insert(format!("{}/{}", id, label), v);
        }
    }
    vutil::write_out(args, &json!({"streams": map, "pid": std::process::id()}));
}

pub fn print_tokens(args: &Args) {
    let text = std::fs::read_to_string(args.str("grammar", "")).expect("--grammar <file>");
    match generate(&text, &args.str("attrs", "")) {
        Ok(code) => println!("{}", code),
        Err(e) => {
            eprintln!("generator panicked: {}", e);
            std::process::exit(3);
        }
    }
}
