//! Family `senum`: small-scope enumeration of expressions over the stack operations.
//!
//! The hand-written stack grammars hold the shapes somebody thought of; every seeded change that
//! slipped through them needed one more shape (pop-then-push inside a failing alternative, an
//! optional that succeeds inside a look-ahead, ...). This family does not rely on foresight: it
//! contains EVERY expression tree of up to `max_size` nodes over
//!
//!   leaves   PUSH(t)  POP  DROP  PEEK  t  "!"
//!   unary    e?   &e   !e   (e ~ ",")*
//!   binary   e ~ e    e | e
//!
//! in which a stack-modifying leaf sits below a construct that can backtrack, and which pest's
//! validator accepts. Each becomes one rule `PUSH(t) ~ PUSH(t)? ~ <e> ~ dump?`; every fifth rule is
//! atomic (its body runs on the span-only path even under try_parse).

use vutil::Rng;

#[derive(Clone, Debug)]
enum E {
    Push,
    Pop,
    Drop,
    Peek,
    Tok,
    Bang,
    Opt(Box<E>),
    Pos(Box<E>),
    Neg(Box<E>),
    Rep(Box<E>),
    Seq(Box<E>, Box<E>),
    Cho(Box<E>, Box<E>),
}

impl E {
    fn text(&self) -> String {
        match self {
            E::Push => "PUSH(t)".into(),
            E::Pop => "POP".into(),
            E::Drop => "DROP".into(),
            E::Peek => "PEEK".into(),
            E::Tok => "t".into(),
            E::Bang => "\"!\"".into(),
            E::Opt(x) => format!("({})?", x.text()),
            E::Pos(x) => format!("&({})", x.text()),
            E::Neg(x) => format!("!({})", x.text()),
            E::Rep(x) => format!("({} ~ \",\")*", x.text()),
            E::Seq(a, b) => format!("{} ~ {}", a.text(), b.text()),
            E::Cho(a, b) => format!("({} | {})", a.text(), b.text()),
        }
    }
    fn modifies(&self) -> bool {
        match self {
            E::Push | E::Pop | E::Drop => true,
            E::Peek | E::Tok | E::Bang => false,
            E::Opt(x) | E::Pos(x) | E::Neg(x) | E::Rep(x) => x.modifies(),
            E::Seq(a, b) | E::Cho(a, b) => a.modifies() || b.modifies(),
        }
    }
    /// A stack-modifying leaf below something that may have to undo it.
    fn interesting(&self) -> bool {
        match self {
            E::Opt(x) | E::Pos(x) | E::Neg(x) | E::Rep(x) => x.modifies() || x.interesting(),
            E::Cho(a, b) => a.modifies() || b.modifies(),
            E::Seq(a, b) => a.interesting() || b.interesting(),
            _ => false,
        }
    }
    /// Shapes that add nothing over a smaller one.
    fn redundant(&self) -> bool {
        match self {
            E::Opt(x) => matches!(**x, E::Opt(_) | E::Rep(_) | E::Pos(_) | E::Neg(_)) || x.redundant(),
            E::Pos(x) => matches!(**x, E::Pos(_)) || x.redundant(),
            E::Neg(x) => x.redundant(),
            E::Rep(x) => x.redundant(),
            // sequences are enumerated right-nested only (a ~ (b ~ c) is the same text as (a ~ b) ~ c)
            E::Seq(a, b) => matches!(**a, E::Seq(..)) || a.redundant() || b.redundant(),
            E::Cho(a, b) => matches!(**a, E::Cho(..)) || a.redundant() || b.redundant(),
            _ => false,
        }
    }
}

fn of_size(n: usize, memo: &mut Vec<Vec<E>>) {
    // memo[k] = all trees with exactly k nodes, k >= 1
    while memo.len() <= n {
        let k = memo.len();
        let mut out = Vec::new();
        if k == 1 {
            out = vec![E::Push, E::Pop, E::Drop, E::Peek, E::Tok, E::Bang];
        } else if k >= 2 {
            for x in memo[k - 1].clone() {
                out.push(E::Opt(Box::new(x.clone())));
                out.push(E::Pos(Box::new(x.clone())));
                out.push(E::Neg(Box::new(x.clone())));
                out.push(E::Rep(Box::new(x)));
            }
            for l in 1..k - 1 {
                let r = k - 1 - l;
                for a in memo[l].clone() {
                    for b in memo[r].clone() {
                        out.push(E::Seq(Box::new(a.clone()), Box::new(b.clone())));
                        out.push(E::Cho(Box::new(a.clone()), Box::new(b)));
                    }
                }
            }
        }
        out.retain(|e| !e.redundant());
        memo.push(out);
    }
}

const HEAD: &str = "t = _{ \"a\" | \"b\" }\ndump = _{ \"#\" ~ PEEK_ALL ~ EOI }\n";

/// Grammar texts of the family (about 100 rules each). `sample_from_next` = how many expressions of
/// size `max_size + 1` to add (seeded sample).
pub fn grammars(max_size: usize, sample_from_next: usize, rng: &mut Rng) -> Vec<String> {
    let mut memo: Vec<Vec<E>> = vec![Vec::new()];
    of_size(max_size + if sample_from_next > 0 { 1 } else { 0 }, &mut memo);
    let mut picked: Vec<String> = Vec::new();
    for k in 1..=max_size {
        for e in &memo[k] {
            if e.interesting() {
                picked.push(e.text());
            }
        }
    }
    if sample_from_next > 0 {
        let pool: Vec<&E> = memo[max_size + 1].iter().filter(|e| e.interesting()).collect();
        let mut seen = std::collections::BTreeSet::new();
        let mut tries = 0;
        while seen.len() < sample_from_next.min(pool.len()) && tries < sample_from_next * 20 {
            tries += 1;
            seen.insert(rng.below(pool.len()));
        }
        for i in seen {
            picked.push(pool[i].text());
        }
    }
    // keep what pest's validator accepts (it refuses e.g. a choice whose first alternative cannot fail)
    let mut rules: Vec<String> = Vec::new();
    for (i, body) in picked.iter().enumerate() {
        let kind = if i % 5 == 4 { "@" } else { "" };
        let rule = format!("e{} = {}{{ PUSH(t) ~ PUSH(t)? ~ {} ~ dump? }}\n", rules.len(), kind, body);
        if refpeg::Grammar::optimized(&format!("{}{}", HEAD, rule)).is_ok() {
            rules.push(rule);
        }
    }
    rules
        .chunks(100)
        .map(|c| {
            let mut g = String::from("// @generated: every small expression over the stack operations (see vgen/src/senum.rs)\n");
            g.push_str(HEAD);
            for r in c {
                g.push_str(r);
            }
            g
        })
        .collect()
}
