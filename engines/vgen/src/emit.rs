//! Harness source emitter: derive invocations, per-rule tables, getter calls and the generated
//! structure walker (C17).

use crate::corpus::GrammarSrc;
use refpeg::{Grammar, Kind, Node};
use std::fmt::Write;

/// Option sets for C20 (label, attributes).
#[cfg(feature = "extras")]
pub const VARIANTS: [(&str, &str); 8] = [
    ("boxifneeded", "#[box_only_if_needed]"),
    ("noref", "#[emit_rule_reference = false]"),
    ("tagged", "#[emit_tagged_node_reference]"),
    ("nospan", "#[do_not_emit_span]"),
    ("nowarn", "#[no_warnings]"),
    ("allon", "#[box_only_if_needed] #[emit_rule_reference] #[emit_tagged_node_reference] #[do_not_emit_span] #[no_warnings] #[simulate_pair_api]"),
    ("noopt", "#[pest_optimizer = false] #[emit_rule_reference]"),
    ("notrunc", "#[emit_rule_reference] #[emit_tagged_node_reference] #[truncate_getter_at_node_tag = false] #[no_warnings]"),
];

#[cfg(not(feature = "extras"))]
pub const VARIANTS: [(&str, &str); 7] = [
    ("boxifneeded", "#[box_only_if_needed]"),
    ("noref", "#[emit_rule_reference = false]"),
    ("tagged", "#[emit_tagged_node_reference]"),
    ("nospan", "#[do_not_emit_span]"),
    ("nowarn", "#[no_warnings]"),
    ("allon", "#[box_only_if_needed] #[emit_rule_reference] #[emit_tagged_node_reference] #[do_not_emit_span] #[no_warnings] #[simulate_pair_api]"),
    ("noopt", "#[pest_optimizer = false] #[emit_rule_reference]"),
];

fn lit(s: &str) -> String {
    format!("{:?}", s)
}

fn rid(name: &str) -> String {
    format!("r#{}", name)
}

struct W<'g> {
    g: &'g Grammar,
    out: String,
    n: usize,
    has_skip: bool,
}

impl<'g> W<'g> {
    fn fresh(&mut self) -> String {
        self.n += 1;
        format!("v{}", self.n)
    }

    /// Emit code that walks `var` (an expression of type `&T` for the type of `node`).
    fn walk(&mut self, node: &Node, var: &str, ind: usize) {
        let pad = "    ".repeat(ind);
        match node {
            Node::Str(s) => {
                let _ = writeln!(self.out, "{pad}harness::walk::str_leaf({var}, {}, w);", lit(s));
            }
            Node::Insens(s) => {
                let _ = writeln!(self.out, "{pad}harness::walk::insens_leaf({var}, {}, w);", lit(s));
            }
            Node::Range(a, b) => {
                let _ = writeln!(self.out, "{pad}harness::walk::range_leaf({var}, {:?}, {:?}, w);", a, b);
            }
            Node::Ident { name, .. } => {
                let _ = writeln!(self.out, "{pad}harness::walk::addr({}, {var}, w);", lit(name));
                if let Some(r) = self.g.rule(name) {
                    if r.kind == Kind::Silent {
                        let _ = writeln!(self.out, "{pad}harness::walk::silent_rule::<t::Rule, _>({var}, {}, w);", lit(name));
                    } else {
                        let _ = writeln!(self.out, "{pad}harness::walk::rule::<t::Rule, _>({var}, {}, w);", lit(name));
                    }
                } else {
                    let f = match name.as_str() {
                        "ANY" => "any",
                        "SOI" => "soi",
                        "EOI" => "eoi::<t::Rule, _>",
                        "NEWLINE" => "newline",
                        "PEEK" => "peek",
                        "POP" => "pop",
                        "PEEK_ALL" => "peek_all",
                        "POP_ALL" => "pop_all",
                        "DROP" => "drop_",
                        n if n.starts_with("ASCII") => "ascii",
                        _ => "unicode",
                    };
                    if f == "unicode" {
                        let _ = writeln!(self.out, "{pad}harness::walk::unicode_char({var}.content, {}, w);", lit(name));
                    } else {
                        let _ = writeln!(self.out, "{pad}harness::walk::{f}({var}, w);");
                    }
                }
            }
            Node::PeekSlice(..) => {
                let _ = writeln!(self.out, "{pad}harness::walk::peek_slice({var}, w);");
            }
            Node::PosPred(x) => {
                let v = self.fresh();
                let _ = writeln!(self.out, "{pad}{{ let {v} = &{var}.content;");
                self.walk(x, &v, ind + 1);
                let _ = writeln!(self.out, "{pad}}}");
            }
            Node::NegPred(_) => {
                let _ = writeln!(self.out, "{pad}let _ = {var};");
            }
            Node::Push(x) => {
                let v = self.fresh();
                let _ = writeln!(self.out, "{pad}{{ let {v} = &{var}.content;");
                self.walk(x, &v, ind + 1);
                let _ = writeln!(self.out, "{pad}}}");
            }
            Node::RestoreOnErr(x) => self.walk(x, var, ind),
            Node::Seq(v) => {
                let m = self.fresh();
                let a = self.fresh();
                let n = v.len();
                let r = self.fresh();
                let im = self.fresh();
                let _ = writeln!(self.out, "{pad}{{ let {m} = {var}.get_matched(); let {a} = {var}.get_all(); let {r} = {var}.as_ref(); let {im} = {var}.clone().into_matched();");
                let _ = n;
                for i in 0..v.len() {
                    let _ = writeln!(self.out, "{pad}    harness::walk::same_node({m}.{i}, {r}.{i}, w); harness::walk::same_debug({m}.{i}, &{im}.{i}, w);");
                }
                for (i, x) in v.iter().enumerate() {
                    if i > 0 && self.has_skip {
                        let _ = writeln!(self.out, "{pad}    for sk in {a}.{i}.skipped.iter() {{ harness::walk::gap(harness::walk::SkipLen::skip_len(sk), w); }}");
                    }
                    let e = self.fresh();
                    let _ = writeln!(self.out, "{pad}    {{ let {e} = {m}.{i}; harness::walk::same_node({e}, &{a}.{i}.matched, w);");
                    self.walk(x, &e, ind + 2);
                    let _ = writeln!(self.out, "{pad}    }}");
                }
                let _ = writeln!(self.out, "{pad}}}");
            }
            Node::Choice(v) => {
                let n = v.len();
                let k = self.fresh();
                // which accessors answer
                let some: Vec<String> = (0..n).map(|i| format!("{var}._{i}().is_some()")).collect();
                let _ = writeln!(self.out, "{pad}{{ let {k} = harness::walk::choice_index(&[{}], w);", some.join(", "));
                // if_then / else_if / else_then chain through references
                let mut chain = format!("{var}.if_then(|_| {{ harness::walk::ran(0, &ran); 0usize }})");
                for i in 1..n - 1 {
                    let _ = write!(chain, ".else_if(|_| {{ harness::walk::ran({i}, &ran); {i}usize }})");
                }
                let _ = write!(chain, ".else_then(|_| {{ harness::walk::ran({}, &ran); {}usize }})", n - 1, n - 1);
                let _ = writeln!(self.out, "{pad}    {{ let ran = std::cell::RefCell::new(Vec::<usize>::new()); let got = {chain}; harness::walk::chain_result(\"if_then\", {k}, got, &ran, w); }}");
                let mut chain = format!("{var}.reference().else_if(|_| {{ harness::walk::ran(0, &ran); 0usize }})");
                for i in 1..n - 1 {
                    let _ = write!(chain, ".else_if(|_| {{ harness::walk::ran({i}, &ran); {i}usize }})");
                }
                let _ = write!(chain, ".else_then(|_| {{ harness::walk::ran({}, &ran); {}usize }})", n - 1, n - 1);
                let _ = writeln!(self.out, "{pad}    {{ let ran = std::cell::RefCell::new(Vec::<usize>::new()); let got = {chain}; harness::walk::chain_result(\"reference\", {k}, got, &ran, w); }}");
                let mut chain = format!("{var}.clone().consume_if_then(|_| {{ harness::walk::ran(0, &ran); 0usize }})");
                for i in 1..n - 1 {
                    let _ = write!(chain, ".else_if(|_| {{ harness::walk::ran({i}, &ran); {i}usize }})");
                }
                let _ = write!(chain, ".else_then(|_| {{ harness::walk::ran({}, &ran); {}usize }})", n - 1, n - 1);
                let _ = writeln!(self.out, "{pad}    {{ let ran = std::cell::RefCell::new(Vec::<usize>::new()); let got = {chain}; harness::walk::chain_result(\"consume\", {k}, got, &ran, w); }}");
                // match_choices!
                let arms: Vec<String> = (0..n).map(|i| format!("_a{i} => {i}usize")).collect();
                let _ = writeln!(self.out, "{pad}    {{ let got = pest_typed_derive::match_choices!({var} {{ {} }}); harness::walk::match_result({k}, got, w); }}", arms.join(", "));
                for (i, x) in v.iter().enumerate() {
                    let e = self.fresh();
                    let _ = writeln!(self.out, "{pad}    if let Some({e}) = {var}._{i}() {{");
                    self.walk(x, &e, ind + 2);
                    let _ = writeln!(self.out, "{pad}    }}");
                }
                let _ = writeln!(self.out, "{pad}}}");
            }
            Node::Opt(x) => {
                let e = self.fresh();
                let _ = writeln!(self.out, "{pad}match {var}.as_ref() {{ None => harness::walk::opt(false, w), Some({e}) => {{ harness::walk::opt(true, w);");
                self.walk(x, &e, ind + 1);
                let _ = writeln!(self.out, "{pad}}} }}");
            }
            Node::Rep(x) | Node::RepOnce(x) => {
                let it = self.fresh();
                let e = self.fresh();
                let idx = self.fresh();
                let _ = writeln!(self.out, "{pad}{{ harness::walk::rep({var}.iter_matched().count(), {var}.iter_all().count(), {var}.clone().into_iter_matched().count(), {var}.content.len(), w);");
                let _ = writeln!(self.out, "{pad}    for ({idx}, ({it}, {e})) in {var}.iter_all().zip({var}.iter_matched()).enumerate() {{");
                if self.has_skip {
                    let _ = writeln!(self.out, "{pad}        if {idx} > 0 {{ for sk in {it}.skipped.iter() {{ harness::walk::gap(harness::walk::SkipLen::skip_len(sk), w); }} }}");
                } else {
                    let _ = writeln!(self.out, "{pad}        let _ = {idx};");
                }
                let _ = writeln!(self.out, "{pad}        harness::walk::same_node({e}, &{it}.matched, w);");
                self.walk(x, &e, ind + 2);
                let _ = writeln!(self.out, "{pad}    }}");
                let _ = writeln!(self.out, "{pad}}}");
            }
            Node::Skip(_) => {
                let _ = writeln!(self.out, "{pad}harness::walk::skip_until({var}, w);");
            }
            // raw-AST forms never reach the walker (default option set only; `e+` is kept as RepOnce
            // by the grammar-extras configuration and has the accessors of `e*`)
            Node::RepExact(..) | Node::RepMin(..) | Node::RepMax(..) | Node::RepMinMax(..) => {}
        }
    }
}

pub struct Emitted {
    pub text: String,
    pub rules: usize,
}

/// One grammar module.
pub fn grammar_module(src: &GrammarSrc, with_variants: bool, with_walker: bool) -> Result<Emitted, String> {
    let g = Grammar::optimized(&src.text).map_err(|e| format!("{}: {}", e.stage, e.messages.join(" | ")))?;
    let mut o = String::new();
    let m = &src.id;
    let gl = lit(&src.text);
    let _ = writeln!(o, "#[allow(non_snake_case, non_camel_case_types, unused, clippy::all)]");
    let _ = writeln!(o, "pub mod {m} {{");
    let _ = writeln!(o, "    pub const GRAMMAR: &str = {gl};");
    let _ = writeln!(o, "    pub mod t {{ #[derive(pest_typed_derive::TypedParser)] #[grammar_inline = {gl}] #[emit_rule_reference] #[no_warnings] pub struct T; }}");
    let _ = writeln!(o, "    pub mod p {{ #[derive(pest_derive::Parser)] #[grammar_inline = {gl}] pub struct P; }}");
    if with_variants {
        // the option variants get the grammar as written, without the wrapper rules (they only
        // serve pest's end offset): a one-rule grammar stays a one-rule grammar, a grammar without
        // a normal rule stays one
        let as_written: String = src.text.lines().filter(|l| !l.starts_with("w__")).collect::<Vec<_>>().join("\n");
        let gw = lit(&as_written);
        for (label, attrs) in VARIANTS {
            let _ = writeln!(o, "    pub mod tv_{label} {{ #[derive(pest_typed_derive::TypedParser)] #[grammar_inline = {gw}] {attrs} pub struct T; }}");
        }
    }
    let has_skip = g.whitespace.is_some() || g.comment.is_some();
    let raw = Grammar::raw(&src.text).ok();
    let user_rules: Vec<&refpeg::RuleDef> = g.rules.iter().filter(|r| !r.name.starts_with("w__") && g.rule(&format!("w__{}", r.name)).is_some()).collect();
    for r in &user_rules {
        let n = &r.name;
        let view = match r.kind {
            Kind::Atomic => "view_atomic",
            Kind::Silent => "view_silent",
            _ => "view_full",
        };
        let _ = writeln!(o, "    fn t_{n}<'i>(inp: &harness::Inputs<'i>, out: &mut harness::CaseObs) {{");
        let _ = writeln!(o, "        type N<'i> = t::pairs::{}<'i, 1>;", rid(n));
        let _ = writeln!(o, "        use t::generics;");
        let _ = writeln!(o, "        harness::run_rule::<t::Rule, N<'i>, t::T>(inp, out, harness::Extra {{");
        let _ = writeln!(o, "            view: harness::{view}::<t::Rule, N<'i>>,");
        let _ = writeln!(o, "            hash: Some(harness::hash_of::<N<'i>>),");
        let _ = writeln!(o, "            generated: |n: &N<'i>, o: &mut harness::NodeObs, g: u32| {{");
        if r.kind != Kind::Atomic {
            let _ = writeln!(o, "                if g & harness::grp::GETTERS != 0 {{");
            for (name, _) in refpeg::shape::getter_shapes(r) {
                let _ = writeln!(o, "                    o.getters.push(harness::getter_obs::<t::Rule, _>({}, n.{}()));", lit(&name), rid(&name));
            }
            let _ = writeln!(o, "                }}");
            if with_walker {
                let _ = writeln!(o, "                if g & harness::grp::WALK != 0 {{");
                let _ = writeln!(o, "                    let mut wk = harness::walk::Walk::default(); let w = &mut wk;");
                let _ = writeln!(o, "                    let root = pest_typed::RuleStruct::<t::Rule>::ref_inner(n);");
                let mut w = W { g: &g, out: String::new(), n: 0, has_skip };
                w.walk(&r.expr, "root", 5);
                o.push_str(&w.out);
                let _ = writeln!(o, "                    o.walk = wk.findings; o.walk_events = wk.events.len() as u64; o.walk_list = wk.events; o.walk_addrs = wk.addrs;");
                let _ = writeln!(o, "                }}");
            }
        }
        let _ = writeln!(o, "            }},");
        let _ = writeln!(o, "        }});");
        let _ = writeln!(o, "    }}");
        let _ = writeln!(o, "    fn p_{n}(s: &str) -> harness::PestObs {{ harness::run_pest::<p::P, p::Rule>(p::Rule::{}, s) }}", rid(&format!("w__{}", n)));
        if with_variants {
            for (label, _) in VARIANTS {
                let _ = writeln!(o, "    fn tv_{label}_{n}<'i>(inp: &harness::Inputs<'i>, out: &mut harness::CaseObs) {{");
                let _ = writeln!(o, "        type N<'i> = tv_{label}::pairs::{}<'i, 1>;", rid(n));
                if label == "noopt" && r.kind != Kind::Atomic {
                    // getters of the raw-AST build (C16 under pest_optimizer = false)
                    let mut calls = String::new();
                    if let Some(rr) = raw.as_ref().and_then(|g| g.rule(n)) {
                        for (name, _) in refpeg::shape::getter_shapes(rr) {
                            let _ = write!(calls, "o.getters.push(harness::getter_obs::<tv_{label}::Rule, _>({}, n.{}())); ", lit(&name), rid(&name));
                        }
                    }
                    let _ = writeln!(o, "        harness::run_variant_with::<tv_{label}::Rule, N<'i>>(inp, out, |n: &N<'i>, o: &mut harness::NodeObs| {{ {calls} }});");
                } else {
                    let _ = writeln!(o, "        harness::run_variant::<tv_{label}::Rule, N<'i>>(inp, out);");
                }
                let _ = writeln!(o, "    }}");
            }
        }
    }
    let _ = writeln!(o, "    pub fn entry() -> harness::GrammarEntry {{");
    let _ = writeln!(o, "        harness::GrammarEntry {{ id: {}, family: {}, grammar: GRAMMAR, rules: vec![", lit(&src.id), lit(&src.family));
    for r in &user_rules {
        let n = &r.name;
        let _ = writeln!(o, "            harness::RuleEntry {{ name: {}, typed: t_{n}, pest: p_{n} }},", lit(n));
    }
    let _ = writeln!(o, "        ], variants: vec![");
    if with_variants {
        for (label, _) in VARIANTS {
            let _ = writeln!(o, "            harness::VariantEntry {{ label: {}, rules: vec![", lit(label));
            for r in &user_rules {
                let n = &r.name;
                let _ = writeln!(o, "                ({}, tv_{label}_{n} as harness::drive::TypedFn),", lit(n));
            }
            let _ = writeln!(o, "            ] }},");
        }
    }
    let _ = writeln!(o, "        ] }}");
    let _ = writeln!(o, "    }}");
    let _ = writeln!(o, "}}");
    Ok(Emitted { text: o, rules: user_rules.len() })
}

/// A shard binary.
pub fn shard_bin(mods: &[String], ids: &[String]) -> String {
    let mut o = String::new();
    let _ = writeln!(o, "// @generated by vgen; do not edit.");
    let _ = writeln!(o, "#![allow(unused, non_snake_case, non_camel_case_types, clippy::all)]");
    let entries = ids.iter().map(|i| format!("{}::entry()", i)).collect::<Vec<_>>().join(", ");
    if cfg!(feature = "extras") {
        // shards of the grammar-extras configuration only make sense with that feature on
        let _ = writeln!(o, "#[cfg(feature = \"extras\")]\nmod x {{");
        for m in mods {
            o.push_str(m);
        }
        let _ = writeln!(o, "pub fn main() {{");
        let _ = writeln!(o, "    let entries = vec![{}];", entries);
        let _ = writeln!(o, "    harness::main_with(entries);");
        let _ = writeln!(o, "}}\n}}");
        let _ = writeln!(o, "#[cfg(feature = \"extras\")]\nfn main() {{ x::main() }}");
        let _ = writeln!(o, "#[cfg(not(feature = \"extras\"))]\nfn main() {{ eprintln!(\"built without the extras feature\"); std::process::exit(2) }}");
        return o;
    }
    for m in mods {
        o.push_str(m);
    }
    let _ = writeln!(o, "fn main() {{");
    let _ = writeln!(o, "    let entries = vec![{}];", entries);
    let _ = writeln!(o, "    harness::main_with(entries);");
    let _ = writeln!(o, "}}");
    o
}
