//! Grammar families: hand-written files under /verif/corpus plus families generated here.

use std::path::Path;
use vutil::Rng;

#[derive(Clone, Debug)]
pub struct GrammarSrc {
    pub id: String,
    pub family: String,
    pub text: String,
}

const KINDS: [(&str, &str); 5] = [("n", ""), ("s", "_"), ("a", "@"), ("c", "$"), ("x", "!")];

/// Every nesting (depth 3) of the five rule kinds around sequences and repetitions, for one
/// configuration of the skip rules.
fn kinds(cfg: usize) -> String {
    let mut g = String::new();
    match cfg {
        0 => {}
        1 => g.push_str("WHITESPACE = _{ \" \" }\n"),
        2 => g.push_str("COMMENT = _{ \"%\" ~ (!\"%\" ~ ANY)* ~ \"%\" }\n"),
        _ => {
            g.push_str("WHITESPACE = { \" \" | \"\\t\" }\n");
            g.push_str("COMMENT = { \"%\" ~ (!\"%\" ~ ANY)* ~ \"%\" }\n");
        }
    }
    for (k3, s3) in KINDS {
        g.push_str(&format!("l3{} = {}{{ \"a\" ~ \"c\"* ~ \"d\"+ ~ \"e\"{{2}} ~ \"a\" }}\n", k3, s3));
    }
    for (k2, s2) in KINDS {
        for (k3, _) in KINDS {
            g.push_str(&format!("l2{}{} = {}{{ \"(\" ~ l3{} ~ \")\" ~ l3{}* }}\n", k2, k3, s2, k3, k3));
        }
    }
    // rules that BEGIN with a repetition / an optional / a predicate (no skip before the first
    // iteration, whatever path the caller's kind sends them down)
    for (k3, s3) in KINDS {
        g.push_str(&format!("m3{} = {}{{ \"c\"* ~ \"d\" ~ (\"e\" ~ \"c\"+)? }}\n", k3, s3));
    }
    for (k2, s2) in KINDS {
        for (k3, _) in KINDS {
            g.push_str(&format!("m2{}{} = {}{{ \"(\" ~ m3{} ~ \")\" ~ !m3{} ~ \".\"? }}\n", k2, k3, s2, k3, k3));
        }
    }
    for (k1, s1) in KINDS {
        for (k2, _) in KINDS {
            for (k3, _) in KINDS {
                g.push_str(&format!("l1{}{}{} = {}{{ \"[\" ~ l2{}{} ~ \"]\" }}\n", k1, k2, k3, s1, k2, k3));
            }
        }
    }
    g
}

/// `PEEK[a..b]` for all bounds in -6..=6 (and open-ended), after a variable number of pushes.
fn slices(atomic: bool) -> String {
    let mut g = String::new();
    let k = if atomic { "@" } else { "" };
    if !atomic {
        g.push_str("WHITESPACE = _{ \" \" }\n");
    }
    g.push_str("tok = _{ \"a\" | \"bb\" | \"é\" | \"\" }\n");
    g.push_str(&format!("pushes = _{{ (PUSH(tok) ~ \",\")* }}\n"));
    let name = |i: i32| if i < 0 { format!("m{}", -i) } else { format!("p{}", i) };
    for a in -6..=6 {
        g.push_str(&format!("o_{} = {}{{ pushes ~ \";\" ~ PEEK[{}..] ~ \"!\" }}\n", name(a), k, a));
        for b in -6..=6 {
            g.push_str(&format!("t_{}_{} = {}{{ pushes ~ \";\" ~ PEEK[{}..{}] ~ \"!\" }}\n", name(a), name(b), k, a, b));
        }
    }
    g.push_str(&format!("e_all = {}{{ pushes ~ \";\" ~ PEEK[..] ~ \"!\" }}\n", k));
    g.push_str(&format!("e_to = {}{{ pushes ~ \";\" ~ PEEK[..2] ~ \"!\" }}\n", k));
    g
}

/// Choices and sequences of every arity 2..=16 with overlapping alternatives.
fn arity() -> String {
    let mut g = String::new();
    g.push_str("WHITESPACE = { \" \" }\n");
    // even alternatives are longer and come first; the odd one after each is its prefix
    for i in 0..16 {
        let c = (b'a' + (i / 2) as u8) as char;
        let lit = if i % 2 == 0 { format!("{}x", c) } else { format!("{}", c) };
        g.push_str(&format!("r{} = {{ \"{}\" }}\n", i, lit));
    }
    for n in 2..=16 {
        let alts: Vec<String> = (0..n).map(|i| format!("r{}", i)).collect();
        g.push_str(&format!("c{} = {{ {} }}\n", n, alts.join(" | ")));
        g.push_str(&format!("s{} = {{ {} }}\n", n, alts.join(" ~ ")));
    }
    g.push_str("rep_c = { (r0 | r1 | r3)* }\n");
    g.push_str("rep_s = { (r1 ~ r3)+ }\n");
    g.push_str("rep_n = { (r1 ~ (r3 | r5)?)* ~ r7 }\n");
    g.push_str("lits = { (\"ax\" | \"a\" | ^\"bx\" | 'c'..'e' | ANY){2,4} }\n");
    g.push_str("ca = @{ r0 | r1 | r2 | r3 | r4 | r5 | r6 | r7 | r8 | r9 | r10 | r11 | r12 }\n");
    g
}

fn unicode_groups() -> Vec<String> {
    let names: Vec<&str> = pest::unicode::unicode_property_names().collect();
    // `INHERITED` is left out: a grammar that uses this property does not compile (known finding
    // of C11, probed separately by `vgen --cmd c11`), and one failing module would take the shard down.
    let mut names: Vec<&str> = names.into_iter().filter(|n| *n != "INHERITED").collect();
    names.sort();
    names
        .chunks(20)
        .map(|chunk| {
            let mut g = String::new();
            for n in chunk {
                g.push_str(&format!("u_{} = {{ {}+ }}\n", n.to_lowercase(), n));
                g.push_str(&format!("o_{} = {{ {} ~ \"|\" ~ (!{} ~ ANY)? }}\n", n.to_lowercase(), n, n));
            }
            g
        })
        .collect()
}

/// Seeded random grammars (thorough tier): valid for pest and well-founded by construction.
///
/// Rules are numbered; a rule only references higher-numbered rules unless a consuming terminal
/// precedes the reference; repetition bodies start with a non-empty terminal; only the last
/// alternative of a choice may match the empty string.
pub fn random_grammar(rng: &mut Rng, stack: bool) -> String {
    let n = 3 + rng.below(5);
    let ws = rng.below(4);
    let mut g = String::new();
    match ws {
        1 => g.push_str("WHITESPACE = _{ \" \" }\n"),
        2 => g.push_str("COMMENT = _{ \"#\" ~ (!\"#\" ~ ANY)* ~ \"#\" }\n"),
        3 => {
            g.push_str("WHITESPACE = { \" \" }\n");
            g.push_str("COMMENT = _{ \"#\" ~ (!\"#\" ~ ANY)* ~ \"#\" }\n");
        }
        _ => {}
    }
    let lits = ["a", "b", "ab", "c", "é", "ba", "0", "x"];
    fn term(rng: &mut Rng, lits: &[&str]) -> String {
        match rng.below(8) {
            0 => format!("^\"{}\"", ["ab", "x", "c"][rng.below(3)]),
            1 => ["'a'..'c'", "'0'..'9'", "'α'..'ω'"][rng.below(3)].to_string(),
            2 => ["ASCII_DIGIT", "ASCII_ALPHA", "ANY", "ASCII_HEX_DIGIT"][rng.below(4)].to_string(),
            _ => format!("\"{}\"", rng.pick(lits)),
        }
    }
    // expr(i, depth, lead): `lead` = must start by consuming a terminal
    fn expr(rng: &mut Rng, i: usize, n: usize, depth: usize, lits: &[&str], stack: bool, pushed: &mut u32) -> String {
        let leaf = |rng: &mut Rng, pushed: &mut u32| -> String {
            let r = rng.below(10);
            if r < 3 && i + 1 < n {
                format!("r{}", i + 1 + rng.below(n - i - 1))
            } else if stack && r == 3 {
                *pushed += 1;
                format!("PUSH({})", term(rng, lits))
            } else if stack && r == 4 && *pushed > 0 {
                ["PEEK", "POP", "DROP", "PEEK_ALL", "PEEK[0..1]", "PEEK[-1..]"][rng.below(6)].to_string()
            } else {
                term(rng, lits)
            }
        };
        if depth == 0 {
            return leaf(rng, pushed);
        }
        match rng.below(9) {
            0 | 1 => {
                let k = 2 + rng.below(2);
                let parts: Vec<String> = (0..k).map(|_| expr(rng, i, n, depth - 1, lits, stack, pushed)).collect();
                format!("({})", parts.join(" ~ "))
            }
            2 => {
                // alternatives all start with a terminal, so none matches the empty string
                let k = 2 + rng.below(2);
                let parts: Vec<String> = (0..k).map(|_| format!("{} ~ {}", term(rng, lits), expr(rng, i, n, depth - 1, lits, stack, pushed))).collect();
                format!("({})", parts.join(" | "))
            }
            3 => format!("({} ~ {})?", term(rng, lits), expr(rng, i, n, depth - 1, lits, stack, pushed)),
            4 => format!("({} ~ {})*", term(rng, lits), expr(rng, i, n, depth - 1, lits, stack, pushed)),
            5 => format!("({} ~ {})+", term(rng, lits), expr(rng, i, n, depth - 1, lits, stack, pushed)),
            6 => {
                let (a, b) = (rng.below(3), 1 + rng.below(3));
                let cnt = match rng.below(4) {
                    0 => format!("{{{}}}", b),
                    1 => format!("{{{},}}", a),
                    2 => format!("{{,{}}}", b),
                    _ => format!("{{{},{}}}", a.min(b), a.max(b)),
                };
                format!("({} ~ {}){}", term(rng, lits), expr(rng, i, n, depth - 1, lits, stack, pushed), cnt)
            }
            7 => format!("{}({}) ~ {}", ["&", "!"][rng.below(2)], term(rng, lits), leaf(rng, pushed)),
            _ => leaf(rng, pushed),
        }
    }
    for i in 0..n {
        let kind = ["", "", "", "_", "@", "$", "!"][rng.below(7)];
        let mut pushed = 0;
        let body = format!("{} ~ {}", term(rng, &lits), expr(rng, i, n, 2, &lits, stack, &mut pushed));
        g.push_str(&format!("r{} = {}{{ {} }}\n", i, kind, body));
    }
    g
}

fn add_wrappers(text: &str) -> Result<String, String> {
    let g = refpeg::Grammar::optimized(text).map_err(|e| format!("{}: {}", e.stage, e.messages.join(" | ")))?;
    let mut out = text.to_string();
    if !out.ends_with('\n') {
        out.push('\n');
    }
    // a wrapper enters its rule the way a caller at top level does (non-atomic); in a grammar that
    // has no normal rule the wrappers are written as `!` rules so that it still has none
    let no_normal = !g.rules.iter().any(|r| r.kind == refpeg::Kind::Normal);
    for r in &g.rules {
        if no_normal && (r.name == "WHITESPACE" || r.name == "COMMENT") {
            // ... and no explicit mention of the skip rules either (they are not driven as entry rules there)
            continue;
        }
        out.push_str(&format!("w__{} = {}{{ {} }}\n", r.name, if no_normal { "!" } else { "" }, r.name));
    }
    Ok(out)
}

pub struct Corpus {
    /// (id, text as written, without the wrapper rules)
    pub raw_texts: Vec<(String, String)>,
    pub grammars: Vec<GrammarSrc>,
    pub rejected: Vec<(String, String)>,
}

pub fn load(corpus_dir: &Path, repo: &Path, thorough: bool, seed: u64) -> Corpus {
    let mut raw: Vec<GrammarSrc> = Vec::new();
    // committed hand-written families: <family>_<name>.pest
    let mut files: Vec<_> = std::fs::read_dir(corpus_dir).map(|d| d.filter_map(|e| e.ok()).map(|e| e.path()).collect()).unwrap_or_else(|_| Vec::new());
    files.sort();
    for p in files {
        if p.extension().and_then(|e| e.to_str()) != Some("pest") {
            continue;
        }
        let stem = p.file_stem().unwrap().to_str().unwrap().to_string();
        let family = stem.split('_').next().unwrap().to_string();
        if family == "extras" && !cfg!(feature = "extras") {
            // written for the grammar-extras configuration (vgen built with --features extras)
            continue;
        }
        raw.push(GrammarSrc { id: stem, family, text: std::fs::read_to_string(&p).unwrap() });
    }
    // the repository's own grammars
    for (id, rel) in [("repo_grammar", "derive/tests/grammar.pest"), ("repo_csv", "derive/examples/csv.pest"), ("repo_json", "derive/benches/json.pest"), ("repo_syntax", "generator/tests/syntax.pest")] {
        if let Ok(text) = std::fs::read_to_string(repo.join(rel)) {
            raw.push(GrammarSrc { id: id.into(), family: "repo".into(), text });
        }
    }
    for cfg in 0..4 {
        raw.push(GrammarSrc { id: format!("kinds_cfg{}", cfg), family: "kinds".into(), text: kinds(cfg) });
    }
    raw.push(GrammarSrc { id: "slice_normal".into(), family: "slice".into(), text: slices(false) });
    raw.push(GrammarSrc { id: "slice_atomic".into(), family: "slice".into(), text: slices(true) });
    raw.push(GrammarSrc { id: "arity_all".into(), family: "arity".into(), text: arity() });
    for (i, g) in unicode_groups().into_iter().enumerate() {
        raw.push(GrammarSrc { id: format!("unicode_{:02}", i), family: "unicode".into(), text: g });
    }
    {
        // every small expression over the stack operations (quick: up to 4 nodes; thorough: plus a
        // seeded sample of the 5-node ones)
        let mut rng = Rng::new(seed).derive(0x5E9);
        for (i, g) in crate::senum::grammars(4, if thorough { 1500 } else { 0 }, &mut rng).into_iter().enumerate() {
            raw.push(GrammarSrc { id: format!("senum_{:02}", i), family: "senum".into(), text: g });
        }
    }
    if thorough {
        let mut rng = Rng::new(seed).derive(0xC0FFEE);
        let mut made = 0;
        let mut tries = 0;
        while made < 60 && tries < 2000 {
            tries += 1;
            let text = random_grammar(&mut rng, made % 3 == 0);
            if refpeg::Grammar::optimized(&text).is_ok() {
                raw.push(GrammarSrc { id: format!("random_s{}_{:03}", seed, made), family: "random".into(), text });
                made += 1;
            }
        }
    }
    let mut grammars = Vec::new();
    let mut rejected = Vec::new();
    let raw_texts = raw.iter().map(|g| (g.id.clone(), g.text.clone())).collect();
    for g in raw {
        match add_wrappers(&g.text) {
            Ok(text) => grammars.push(GrammarSrc { text, ..g }),
            Err(e) => rejected.push((g.id, e)),
        }
    }
    Corpus { raw_texts, grammars, rejected }
}
