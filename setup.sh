#!/bin/sh
# Build the verification engines offline from files on disk (run once after a fresh restore).
# Every check rebuilds what it needs anyway (cargo fingerprints /repo's working tree); this only
# warms the shared target directory so that the first check of each kind is not slow.
set -e
cd "$(dirname "$0")"
export CARGO_NET_OFFLINE=true
export CARGO_TARGET_DIR="$(pwd)/target"
mkdir -p target/run evidence replays
(cd engines && cargo build --offline --release -p textmon -p vgen -p rtmon)
./target/release/vgen --cmd emit --shards 16 --tier quick --seed 1 --out target/run/setup-emit.json
(cd engines/harness && cargo build --offline)
BINS=$(python3 -c "
import json
d=json.load(open('target/run/setup-emit.json'))
print(' '.join('--bin '+s['bin'] for s in d['shards'] if s['family'] not in ('kinds','slice') and s['grammars']))")
(cd engines/harness && cargo build --offline --release $BINS)
# second configuration: pest's grammar-extras on everywhere (own target directory, shards x_*)
(cd engines && cargo build --offline --release -p vgen --features vgen/extras --target-dir "$CARGO_TARGET_DIR/x")
./target/x/release/vgen --cmd emit --shards 16 --tier quick --seed 1 --out target/run/setup-emit-x.json
XBINS=$(python3 -c "
import json
d=json.load(open('target/run/setup-emit-x.json'))
print(' '.join('--bin '+s['bin'] for s in d['shards'] if s['grammars']))")
(cd engines/harness && cargo build --offline --features extras --target-dir "$CARGO_TARGET_DIR/x" $XBINS)
(cargo build --offline --manifest-path engines/probes/inherited/Cargo.toml >/dev/null 2>&1 || true)
echo "setup done"
