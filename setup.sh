#!/bin/sh
# Build the verification engines offline from files on disk (run once after a fresh restore).
set -e
cd "$(dirname "$0")"
export CARGO_NET_OFFLINE=true
export CARGO_TARGET_DIR="$(pwd)/target"
mkdir -p target/run evidence replays
(cd engines && cargo build --offline --release -p textmon)
echo "setup done"
